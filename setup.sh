#!/bin/bash
# setup.sh — run once after a fresh restore, offline: warms the Go build cache with the harness and its
# dependencies (rapid, race-enabled std) so that the per-check builds take seconds. Builds from files on disk only.
set -euo pipefail
cd "$(dirname "$0")"
export GOFLAGS=-mod=mod GOPROXY=off GOSUMDB=off GOTOOLCHAIN=local
D=/var/tmp/verif-setup.$$
trap 'rm -rf "$D"' EXIT
tools/stage.sh "$D"
cd "$D/m"
go test -c -tags verif -vet=off -o "$D/a.test" ./verifh
go test -c -tags verif -vet=off -o "$D/b.test" ./internal/geom
go test -c -tags verif -vet=off -o "$D/d.test" ./internal/phase3
go test -c -tags verif -vet=off -race -o "$D/c.test" ./verifh
echo "setup ok"
