#!/usr/bin/env python3
"""sensitivity.py — runs checks against a MODIFIED copy of the repository (never /repo itself).

  sensitivity.py revert <commit> <ID>[,<ID>...] [quick|thorough]   revert one commit of /repo in a scratch worktree
  sensitivity.py patch <patch.diff> <ID>[,<ID>...] [quick|thorough] apply a patch in a scratch worktree
  sensitivity.py fixes                                              revert every 'fix:' commit in turn against its properties

For every run it prints one line: <what> <ID> exit=<code> wall=<s> first replay file. Evidence/replays of these runs go to a
scratch directory (VERIF_OUTDIR), never to /verif/evidence. The worktree is removed afterwards.
"""
import json
import os
import shutil
import subprocess
import sys
import time

VERIF = os.path.dirname(os.path.dirname(os.path.abspath(__file__)))
ROOT = "/var/tmp/verif-sens"

# fix commit subject (prefix) -> properties whose checks must notice its absence
FIXES = [
    ("F1", "fix: greedy cycle breaker skipped edges", ["C01"]),
    ("F2", "fix: two-node-cycle pre-pass reversed parallel edges", ["C03", "C14", "C07"]),
    ("F3", "fix: network simplex built a spanning 'tree' with cycles", ["C01", "C03", "C10"]),
    ("F15", "fix: network simplex picked the minimum-slack incident edge in map-iteration order", ["C07"]),
    ("F4", "fix: network simplex accumulated cut values", ["C10"]),
    ("F5", "fix: network simplex with horizontal balancing could leave negative layers", ["C01"]),
    ("F6", "fix: longest-path layering put every node of a path in layer 0", ["C01", "C03", "C11"]),
    ("F7", "fix: crossing counter mixed up layers with index 64 and above", ["C12"]),
    ("F8", "fix: SinkColoring left neighbouring nodes overlapping", ["C04"]),
    ("F9a", "fix: NetworkSimplex positioner confused nodes whose IDs look like helper IDs", ["C08", "C01"]),
    ("F9b", "fix: NetworkSimplex positioner stored node centres as left edges", ["C04"]),
    ("F10", "fix: orthogonal routes had slanted segments", ["C06"]),
    ("F11", "fix: spline router built overlapping or zero-height corridor rectangles", ["C01"]),
    ("F12", "fix: MergeRects padded the polygon with (0,0) vertices", ["C20"]),
    ("F13", "fix: connected components listed their nodes and edges in map-iteration order", ["C07", "C09"]),
    ("F14", "fix: self-loops were put back in map-iteration order", ["C07"]),
    ("F16", "fix: WithNodeSize reset the size of nodes that are not in the map", ["C02"]),
]

def sh(*a, **kw):
    return subprocess.run(a, capture_output=True, text=True, **kw)

def make_worktree(name):
    wt = os.path.join(ROOT, name)
    sh("git", "-C", "/repo", "worktree", "remove", "--force", wt)
    shutil.rmtree(wt, ignore_errors=True)
    os.makedirs(ROOT, exist_ok=True)
    r = sh("git", "-C", "/repo", "worktree", "add", "--detach", wt, "HEAD")
    if r.returncode != 0:
        raise SystemExit(r.stderr)
    return wt

def drop_worktree(wt):
    sh("git", "-C", "/repo", "worktree", "remove", "--force", wt)
    shutil.rmtree(wt, ignore_errors=True)
    sh("git", "-C", "/repo", "worktree", "prune")

def run_checks(label, wt, ids, tier):
    out = os.path.join(ROOT, "out-" + label)
    shutil.rmtree(out, ignore_errors=True)
    os.makedirs(out)
    results = []
    for pid in ids:
        t0 = time.time()
        r = subprocess.run([os.path.join(VERIF, "check"), pid, tier], env=dict(os.environ, VERIF_REPO=wt, VERIF_OUTDIR=out), capture_output=True, text=True)
        viol = [l for l in r.stdout.splitlines() if l.startswith("VIOLATION")]
        first = viol[0].split("replay=")[1] if viol else ""
        err = ""
        if first and os.path.exists(first):
            try:
                err = json.load(open(first)).get("error", "")[:160]
            except Exception:
                pass
        print(f"{label:6s} {pid} exit={r.returncode} wall={time.time()-t0:.0f}s {first} {err}", flush=True)
        if r.returncode == 2:
            print("   " + r.stderr.strip().replace("\n", "\n   ")[-1500:])
        results.append((pid, r.returncode, first))
    return results, out

def find_commit(subject_prefix):
    r = sh("git", "-C", "/repo", "log", "--format=%H %s")
    for l in r.stdout.splitlines():
        h, s = l.split(" ", 1)
        if s.startswith(subject_prefix):
            return h
    raise SystemExit("no commit with subject " + subject_prefix)

def do_revert(label, commit, ids, tier, keep_corpus=False):
    wt = make_worktree(label)
    try:
        r = sh("git", "-C", wt, "revert", "--no-commit", commit)
        if r.returncode != 0:
            print(f"{label}: revert failed: {r.stderr}")
            return []
        res, out = run_checks(label, wt, ids, tier)
        return res
    finally:
        drop_worktree(wt)

def main():
    a = sys.argv[1:]
    if not a:
        print(__doc__)
        return 2
    tier = "quick"
    if a[0] == "fixes":
        only = a[1].split(",") if len(a) > 1 else None
        for label, subj, ids in FIXES:
            if only and label not in only:
                continue
            do_revert(label, find_commit(subj), ids, tier)
        return 0
    if a[0] == "revert":
        tier = a[3] if len(a) > 3 else "quick"
        do_revert("rev-" + a[1][:7], a[1], a[2].split(","), tier)
        return 0
    if a[0] == "patch":
        tier = a[3] if len(a) > 3 else "quick"
        label = "p-" + os.path.basename(os.path.dirname(os.path.abspath(a[1])))[:20]
        wt = make_worktree(label)
        try:
            r = sh("git", "-C", wt, "apply", os.path.abspath(a[1]))
            if r.returncode != 0:
                print("patch does not apply:", r.stderr)
                return 2
            run_checks(label, wt, a[2].split(","), tier)
        finally:
            drop_worktree(wt)
        return 0
    print(__doc__)
    return 2

if __name__ == "__main__":
    sys.exit(main())
