#!/bin/bash
# stage.sh <scratch-dir> : copy /repo's working tree into <scratch-dir>/m and overlay the harness.
# Used by /verif/check and by hand during development.
set -euo pipefail
D="$1"
REPO="${VERIF_REPO:-/repo}"
mkdir -p "$D/m"
rsync -a --delete --exclude .git "$REPO"/ "$D/m/"
rm -rf "$D/m/verifh" "$D/m/testdata/rapid"
mkdir -p "$D/m/verifh"
cp /verif/harness/verifh/*.go "$D/m/verifh/"
cp /verif/harness/geom/*.go "$D/m/internal/geom/" 2>/dev/null || true
cd "$D/m"
if ! grep -q 'pgregory.net/rapid' go.mod; then
  printf '\nrequire pgregory.net/rapid v1.3.0\n' >> go.mod
fi
cat /verif/harness/go.sum.extra >> go.sum
