#!/bin/bash
# stage.sh <scratch-dir> : copy /repo's working tree into <scratch-dir>/m and overlay the harness.
# Used by /verif/check and by hand during development.
set -euo pipefail
D="$1"
V="$(cd "$(dirname "$0")/.." && pwd)"   # the /verif tree this script belongs to (a vp-run snapshot is self-contained)
REPO="${VERIF_REPO:-/repo}"
mkdir -p "$D/m"
rsync -a --delete --exclude .git "$REPO"/ "$D/m/"
rm -rf "$D/m/verifh" "$D/m/testdata/rapid"
mkdir -p "$D/m/verifh"
cp "$V"/harness/verifh/*.go "$D/m/verifh/"
cp "$V"/harness/geom/*.go "$D/m/internal/geom/"
# the geometry harness lives in package geom (it needs unexported functions); it shares the infrastructure files
sed 's/^package verifh$/package geom/' "$V"/harness/verifh/infra_test.go > "$D/m/internal/geom/zz_verif_infra_test.go"
sed 's/^package verifh$/package geom/' "$V"/harness/verifh/replay_test.go > "$D/m/internal/geom/zz_verif_replay_test.go"
# the crossing-counter harness (C12K) lives in package phase3 for the same reason
cp "$V"/harness/phase3/*.go "$D/m/internal/phase3/"
sed 's/^package verifh$/package phase3/' "$V"/harness/verifh/infra_test.go > "$D/m/internal/phase3/zz_verif_infra_test.go"
sed 's/^package verifh$/package phase3/' "$V"/harness/verifh/replay_test.go > "$D/m/internal/phase3/zz_verif_replay_test.go"
cd "$D/m"
if ! grep -q 'pgregory.net/rapid' go.mod; then
  printf '\nrequire pgregory.net/rapid v1.3.0\n' >> go.mod
fi
cat "$V"/harness/go.sum.extra >> go.sum
