# table of claimed properties: id -> (technique, level text, level note). Read by gen_manifest.py.
NOT_APPLICABLE = {}
NOTES = ("All checks are property-based tests (pgregory.net/rapid) run by ./check inside a scratch copy of /repo's working tree. "
         "Exit 0 = held on everything explored, 1 = VIOLATION line, 2 = inconclusive/infrastructure (never a VIOLATION line). "
         "Genuine defects found at the pinned commit were repaired by 'fix:' commits in /repo and are listed as 'fixed' in known_findings.json; "
         "defects that are not small to repair are listed there as 'known' and reported as KNOWN-FINDING lines.")
CLAIMED["C01"] = (
    "property-based testing (rapid): generated multigraphs x full option grid, oracle = returns + finite output, process-isolated workers with watchdog and journal",
    "Generated search over edge lists (7 graph families, unions, adversarial IDs) and the documented option grid; each case runs in a watched worker process "
    "(recovered panics shrink through rapid; stack overflow / heap or wall-clock budget hits are taken from the journal, confirmed twice in isolation and minimised out of process). "
    "Exploration is the right level: the property is 'never crashes on any input', which has no finite model; it can only be searched.",
    "Budget: 60 s wall / 2 GiB live heap per case for graphs up to 60 nodes / 120 edges (measured worst case about 10 s). Splines outside the spline-safe domain D_S are excluded by construction (known finding K3).",
)
