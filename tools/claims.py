# table of claimed properties: id -> (technique, level text, level note). Read by gen_manifest.py.
NOT_APPLICABLE = {}
NOTES = ("All checks are property-based tests (pgregory.net/rapid v1.3.0) run by ./check inside a scratch copy of /repo's working tree, one watched worker process per shard. "
         "Exit 0 = held on everything explored, 1 = VIOLATION line, 2 = inconclusive/infrastructure (never a VIOLATION line). "
         "Genuine defects found at the pinned commit were repaired by 'fix:' commits in /repo and are listed as 'fixed' in known_findings.json; "
         "defects that are not small to repair are listed there as 'known', excluded from generation by construction (counted in the evidence) and reported as KNOWN-FINDING lines. "
         "VERIF_SEED selects the rapid seeds of all shards (sha256 of seed/property/test/shard); native coverage-guided fuzzing is not part of the registered commands (it cannot be pinned to a seed).")
BASE = "Exploration (generated search with shrinking) is the level this family of technique gives: the property quantifies over all inputs/configurations, which has no finite model; "
CLAIMED["C01"] = (
    "property-based testing (rapid): generated multigraphs x full option grid; oracle = Layout returns + finite output; process-isolated workers with wall-clock/heap watchdog and journal; plus small-scope exhaustive enumeration (every ordered edge list of <= 3 (thorough 4) edges on 3 nodes x the complete 3x2x5x5 algorithm grid) and, in the thorough tier, a time-boxed native coverage-guided fuzz stage (rapid.MakeFuzz)",
    BASE + "each case runs in a watched worker (recovered panics shrink through rapid; stack overflow / budget hits are taken from the journal, confirmed twice in isolation and minimised out of process).",
    "Budget per case: 180 s wall / 2 GiB live heap for graphs up to 60 nodes / ~3 edges per node (measured worst case about 11 s). NetworkSimplex positioner only up to 16 nodes / 24 edges (documented as unsuitable beyond a few dozen nodes). Splines outside the spline-safe domain D_S are excluded by construction (known finding K3).")
CLAIMED["C02"] = (
    "property-based testing (rapid): validity predicate on the returned node/edge multisets and sizes against the input and the size options",
    BASE + "the oracle compares the returned ID multiset, edge multiset, per-node configured size (per-node > fixed > zero), self-loop routes and, with virtual output, the helper-node count against band spans. A giant regime (one component of 130-1100 nodes, regular or random thin structure) runs the same oracle beyond the count thresholds small graphs never reach.",
    "With virtual-node output and user IDs that look like helper IDs the output cannot mark helpers (a todo in the source); there only what is decidable is asserted. K3 excluded.")
CLAIMED["C03"] = (
    "property-based testing (rapid): band structure derived from returned Y coordinates; validity predicate (band spacing, no flat edge, upward <=> ArrowHeadStart, acyclic => no upward edge)",
    BASE + "bands are recomputed from the output alone (rank of Y per component, components by union-find on the input).",
    "LayerSpacing > 0, as the property states. Tolerance 1e-9 relative on the spacing inequality.")
CLAIMED["C04"] = (
    "property-based testing (rapid): pairwise geometric validity predicate (same-band spacing, disjoint open rectangles, finite non-negative coordinates)",
    BASE + "all pairs of returned nodes are compared, across components, helper nodes included when requested.",
    "NetworkSimplex positioner: integer sizes/spacing and <= 12 nodes / 24 edges (its integer grid and cost). LayerSpacing > 0. Tolerance 1e-9 relative.")
CLAIMED["C05"] = (
    "property-based testing (rapid): validity predicate on first/last route point against the endpoint rectangles (bands from Y), arrowhead end at ToID",
    BASE + "upper/lower endpoint are derived from the bands of the output, anchor points recomputed from X,Y,W,H.",
    "LayerSpacing > 0; splines only inside D_S (K3). Tolerance 1e-9 relative on anchor coordinates.")
CLAIMED["C06"] = (
    "property-based testing (rapid): per-style validity predicate on route geometry (point counts vs band span, monotone y, bends outside node interiors, bends == helper nodes, axis-parallel segments, spline joints)",
    BASE + "each style's geometric contract is checked on every routed edge of generated drawings with heterogeneous widths and heights.",
    "Size-aware positioners, LayerSpacing > 0; splines only inside D_S (uniform heights), K3.")
CLAIMED["C07"] = (
    "property-based testing (rapid): repetition oracle (5 calls in-process on the same source and size map, DeepEqual, inputs compared with a snapshot) + per-case result digests compared between two fresh processes with different call histories (the second executes every other case and lays out each case's near-duplicate inputs - one width or spacing changed by 1e-9..0.005 - before instead of after it); thorough adds a native fuzz stage",
    BASE + "Go re-randomises map iteration on every range statement, so repetition samples iteration orders; every shard is additionally run twice in separate processes and the per-case SHA-256 digests are compared.",
    "Greedy+random excluded as the property states. A cross-process mismatch is reported with the case but replays only across two processes (./check C07 --replay runs the in-process oracle).")
CLAIMED["C08"] = (
    "property-based testing (rapid): metamorphic relation Layout(rename(G)) == rename(Layout(G)), exact, with renamings drawn from helper-like/empty/long/Unicode names and from names composed of tokens and a separator (distinct ID pairs whose joined forms coincide)",
    BASE + "the relation needs no reference layout; helper-name collisions (V<n>, NE<i>) are generated on purpose and counted.",
    "Presupposes determinism (C07). Greedy+random is pinned through hook H1.")
CLAIMED["C09"] = (
    "property-based testing (rapid): metamorphic relation part-alone == restriction of the union modulo one horizontal translation; extents (nodes and, for the piecewise-linear routings, route points) disjoint and NodeSpacing apart for size-aware positioners",
    BASE + "disjoint unions of 2-4 connected parts are built with a drawn interleaving (rarely one part is a 33-44 node sparse component or a 201-230 node thin giant); every part is laid out alone and compared node by node, edge by edge, helper nodes as a multiset.",
    "Presupposes determinism (C07). X compared within 1e-9 relative (a shift is added), everything else exactly.")
CLAIMED["C10"] = (
    "property-based testing (rapid): per-instance optimality certificate (max-weight closure via max-flow on the tight-edge graph, LP duality) + feasibility + band contiguity; certificate self-tested against brute force",
    BASE + "optimality is certified per instance rather than compared with a second solver; runs that hit the iteration cap (hook H2) are not judged for optimality, as the property provides.",
    "Hook H2 (monitor event verif-ns-exit). The certificate is cross-checked against brute force on <= 6 nodes in every run (TestC10OracleSelfTest).")
CLAIMED["C11"] = (
    "property-based testing (rapid): differential against an independent longest-path-to-sink computation on the drawn orientation",
    BASE + "band of every node vs. independent memoised longest-path heights; number of bands vs. 1 + longest path.",
    "LayerSpacing > 0 (bands from Y).")
CLAIMED["C12"] = (
    "property-based testing (rapid): differential between the monitor's reported crossing count and a naive O(E^2) inversion count on the returned drawing; dedicated deep (>= 65 layers) and wide generators; plus the counter itself (package-internal harness) against the naive count on arbitrary, non-minimised proper layerings (TestC12Counter)",
    BASE + "the reference count is taken from the output (node centres and polyline bends, by x-order per adjacent band pair), so it also checks that the chosen order survives positioning and routing.",
    "Simple graphs only, NodeSpacing > 0, LayerSpacing > 0, size-aware positioners, as stated. Geometric intersection is deliberately not the oracle (bends sit mid-band).")
CLAIMED["C13"] = (
    "small-scope exhaustive enumeration (all labelled rooted trees x all edge orders, n <= 5 quick / n <= 6 thorough) + property-based testing (rapid) on random trees up to 40 / 120 nodes; oracle = zero crossings",
    BASE + "the small scope is enumerated completely (evidence lists it under exhaustive_subspaces); beyond it random trees of three shapes are searched.",
    "Default layering, Polyline, size-aware positioners; geometric check only with uniform sizes.")
CLAIMED["C14"] = (
    "property-based testing (rapid) + small-scope exhaustive enumeration (all ordered edge lists of <= 4 edges on 3 nodes; thorough: <= 5 edges on 4 nodes): single-edge irredundancy of the reversed set (DepthFirst), no reversal on acyclic inputs",
    BASE + "the oracle is the property's own operational wording, evaluated with an independent cycle test on ID strings.",
    "Set-minimality beyond the single-edge criterion is not asserted (not stated).")
CLAIMED["C15"] = (
    "property-based testing (rapid) of concurrent schedules under the Go race detector: k goroutines released by a barrier, GOMAXPROCS varied; oracle = no race report + DeepEqual with the sequential result; job mixes include wide jobs and long-running regular fishbones (state shared between calls in flight without a data race)",
    BASE + "the race detector is happens-before based: it reports a conflicting pair whenever both accesses execute unordered, not only when the bad interleaving happens, so generated concurrent executions find shared-state races reliably.",
    "The property's 'static enumeration of every package-level variable' is a different technique and is not attempted. A race report does not replay; the report is stored next to the replay file.")
CLAIMED["C16"] = (
    "property-based testing (rapid): validity predicate per band (extent == sum of widths + (n-1) spacing, leftmost x == 0, midpoints / right ends coincide) with helper nodes in the output; bands from a handful of nodes up to fans of 8192+ nodes",
    BASE + "bands are the Y groups of the returned nodes of single-component inputs.",
    "Tolerance 1e-9 relative (sums are associated differently). LayerSpacing > 0.")
CLAIMED["C17"] = (
    "property-based testing (rapid): metamorphic relation Layout(2^k * sizes, 2^k * spacings) == 2^k * Layout(sizes, spacings), bit-exact",
    BASE + "multiplication by a power of two commutes exactly with +, -, max, min and /2, which is all these algorithms do with coordinates.",
    "Presupposes determinism (C07). Positioners/routings as stated (no NetworkSimplex positioner, no splines).")
CLAIMED["C18"] = (
    "stateful property-based testing (rapid state machine): histories of monitored / unmonitored / panicking Layout calls (monitors that panic once or stay broken, with a string, an error value or a runtime.Error); invariant over the history (events stamped with the executing call) + layout with monitor == without",
    BASE + "the whole history shrinks as one value; panicking calls (empty graph, malformed edge after the monitor was installed, monitor's own Log panics) are part of the alphabet.",
    "The monitor is process-global state; histories are sequential (concurrency with monitors is outside C15/C18 as stated).")
CLAIMED["C19"] = (
    "property-based testing (rapid) inside package geom: differential against an independent visibility-graph Dijkstra + segment-in-corridor predicate; oracle self-tested against a door-to-door dynamic programme; long corridors (60-2300 rectangles, TestC19Long) against a second exact oracle (O(k^2) slope-window sweep over the door end points, cross-checked with the visibility graph); plus small-scope exhaustive enumeration of all integer-grid corridors (<= 3 rectangles on 0..4, thorough <= 4 on 0..5) x 25 start/end positions; thorough adds a native fuzz stage",
    BASE + "corridors are generated with every step type (equal edges, widening, narrowing, shifts) on grid and free-float coordinates.",
    "Start/end position classes in which the pinned router is wrong (rectangle vertices, end inside/on the door line, start on the door line, interior start on a chord between corridor vertices) are known finding K1 and excluded by construction.")
CLAIMED["C20"] = (
    "property-based testing (rapid) inside package geom: validity predicate on FitSpline output (endpoints, joints, 400 samples per piece within 0.05 of the corridor, MergeRects polygon == corridor boundary) and a constructed-roots oracle for solve3; plus the exhaustively enumerated grid corridors of C19 fed to the fitter; thorough adds native fuzz stages",
    BASE + "the fitter is fed exactly as the router feeds it; the root finder is compared with the roots its inputs were built from, with stated tolerances.",
    "Excursions with the signature of known finding K2 (leave and re-enter through crossings the fitter ignores by design) are counted, not failed; ill-conditioned leading coefficients (known finding K4) are not judged for accuracy.")
