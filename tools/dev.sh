#!/bin/bash
# dev.sh <TestName> <checks> [seed] : stage + build + run one test in /var/tmp/dev (development helper)
export GOFLAGS=-mod=mod GOPROXY=off GOSUMDB=off GOTOOLCHAIN=local
set -e
/verif/tools/stage.sh /var/tmp/dev
cd /var/tmp/dev/m && go test -c -tags verif -o ../verifh.test ${PKG:-./verifh}
cd .. && rm -f fail.json out.json
set +e
VERIF_TIER=${VERIF_TIER:-quick} VERIF_OUT=/var/tmp/dev/out.json VERIF_FAILCASE=/var/tmp/dev/fail.json VERIF_JOURNAL=/var/tmp/dev/journal.json timeout ${TMO:-600} ./verifh.test -test.run "^$1\$" -rapid.checks=$2 -rapid.seed=${3:-7} -rapid.nofailfile -test.timeout 0 2>&1 | tail -${TAIL:-30}
test -f fail.json && head -c 3000 fail.json
python3 - <<'PY'
import json
try:
    d=json.load(open('/var/tmp/dev/out.json'))
    print('evals',d['evaluations'],'nontrivial',d['nontrivial'],'distinct',len(d['distinct_hashes']),'failures',d['failures'])
    print(' '.join(f"{k}={v}" for k,v in sorted(d['classes'].items())))
    ex=d.get('extra') or {}
    sc=ex.pop('slowest_case',None)
    if isinstance(sc,dict) and 'edges' in sc:
        ids=set(x for e in sc['edges'] for x in e)
        sc={k:v for k,v in sc.items() if k not in('edges','sizes')}|{'n':len(ids),'m':len(sc['edges'])}
    print('excluded',d['known_findings_excluded'], 'extra', ex, 'slowest', str(sc)[:600])
except Exception as e: print('no stats', e)
PY
