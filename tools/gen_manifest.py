#!/usr/bin/env python3
"""Regenerates /verif/MANIFEST.json from the table below (keeps it valid and in step with ./check)."""
import json, os, subprocess
V = os.path.dirname(os.path.dirname(os.path.abspath(__file__)))
props = {json.loads(l)["id"]: json.loads(l) for l in open(os.path.join(V, "properties.jsonl"))}

# id -> (technique, level text, level note)
CLAIMED = {}
exec(open(os.path.join(V, "tools", "claims.py")).read())

hook_commits = subprocess.run(["git", "-C", "/repo", "log", "--format=%H %s", "--grep=^verif hook"], capture_output=True, text=True).stdout.strip().splitlines()
checks = []
for pid in sorted(CLAIMED):
    tech, text, note = CLAIMED[pid]
    checks.append(dict(
        property_id=pid,
        quick_cmd=f"./check {pid} quick",
        thorough_cmd=f"./check {pid} thorough",
        evidence_file=f"/verif/evidence/{pid}.json",
        replay_cmd_template=f"./check {pid} --replay {{path}}",
        engine="rapid-harness",
        level_claimed=dict(category="exploration", text=text, design_ref=f"DESIGN.md section 5, {pid}"),
        level_note=note,
        technique=tech,
    ))
na = [dict(property_id=pid, reason=NOT_APPLICABLE.get(pid, "check not built yet (work in progress); no claim is made for this property")) for pid in sorted(props) if pid not in CLAIMED]
m = dict(
    version=1,
    setup_cmd="./setup.sh",
    hooks=dict(guard="verif (Go build tag)", enable="go test -c -tags verif inside a scratch copy of /repo (done by ./check)",
               baseline_off_cmd="cd /repo && GOFLAGS=-mod=mod GOPROXY=off GOSUMDB=off go test -json -vet=off -count=1 -timeout 25m ./...",
               source_commits=[c.split()[0] for c in hook_commits], add_only=True),
    engines=[dict(name="rapid-harness", path="/verif/check + /verif/harness", serves_properties=sorted(CLAIMED),
                  kind_free_text="property-based testing with pgregory.net/rapid v1.3.0 (generation, shrinking, state machine), small-scope exhaustive enumeration, Go race detector for C15; python3 driver with process isolation, journal and replay")],
    checks=checks,
    notes=NOTES,
    not_applicable=na,
)
json.dump(m, open(os.path.join(V, "MANIFEST.json"), "w"), indent=1)
print("claimed:", sorted(CLAIMED), "not claimed:", [x["property_id"] for x in na])
