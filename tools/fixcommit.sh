#!/bin/bash
# fixcommit.sh <message> : run the pinned suite on /repo (guard off) and commit the working-tree change as one commit
set -euo pipefail
export GOFLAGS=-mod=mod GOPROXY=off GOSUMDB=off GOTOOLCHAIN=local
cd /repo
test -z "$(gofmt -l .)" || { echo "gofmt:"; gofmt -l .; exit 1; }
go build ./... && go build -tags verif ./...
out=$(go test -vet=off -count=1 ./... 2>&1) || { echo "$out"; exit 1; }
pass=$(go test -vet=off -count=1 -json ./... 2>/dev/null | grep -c '"Action":"pass","Package":"[^"]*","Test"' || true)
echo "passing tests (incl. subtests): $pass"
test "$pass" = 43 || { echo "expected 43"; exit 1; }
git status --short | grep -q go.sum && { echo "go.sum modified!"; exit 1; }
git add -A && git commit -q -m "$1" && git log --oneline -1
