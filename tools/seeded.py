#!/usr/bin/env python3
"""seeded.py — ingest, confirm and evaluate seeded changes (realistic breakages written by independent sub-agents).

  seeded.py ingest <name> <agent-out-dir> <property>    confirm the change in a scratch worktree (builds, 43 tests pass, demo fails
                                                        with / passes without) and store it as /verif/seeded/<name>/
  seeded.py run <name> [<ID>,<ID>...|all] [quick|thorough]  run checks against the change (scratch worktree; /repo is never touched)
  seeded.py table                                        print which checks caught which change

A change is only kept after `ingest` confirmed all of that here, independently of what the sub-agent reported.
"""
import json
import os
import shutil
import subprocess
import sys
import time

VERIF = os.path.dirname(os.path.dirname(os.path.abspath(__file__)))
ROOT = "/var/tmp/verif-seeded"
ENV = dict(os.environ, GOFLAGS="-mod=mod", GOPROXY="off", GOSUMDB="off", GOTOOLCHAIN="local")
ALL = [f"C{i:02d}" for i in range(1, 21)]

def sh(*a, **kw):
    return subprocess.run(a, capture_output=True, text=True, **kw)

def worktree(name):
    wt = os.path.join(ROOT, name)
    sh("git", "-C", "/repo", "worktree", "remove", "--force", wt)
    shutil.rmtree(wt, ignore_errors=True)
    os.makedirs(ROOT, exist_ok=True)
    r = sh("git", "-C", "/repo", "worktree", "add", "--detach", wt, "HEAD")
    if r.returncode != 0:
        raise SystemExit(r.stderr)
    return wt

def drop(wt):
    sh("git", "-C", "/repo", "worktree", "remove", "--force", wt)
    shutil.rmtree(wt, ignore_errors=True)
    sh("git", "-C", "/repo", "worktree", "prune")

def count_pass(wt):
    r = subprocess.run(["go", "test", "-vet=off", "-count=1", "-json", "-skip", "TestDemo|TestZZ", "./..."], cwd=wt, env=ENV, capture_output=True, text=True)
    n = sum(1 for l in r.stdout.splitlines() if '"Action":"pass"' in l and '"Test"' in l)
    f = sum(1 for l in r.stdout.splitlines() if '"Action":"fail"' in l and '"Test"' in l)
    return n, f

def run_demo(wt, demo_rel):
    pkg = "./" + os.path.dirname(demo_rel) if os.path.dirname(demo_rel) else "."
    r = subprocess.run(["go", "test", "-vet=off", "-count=1", pkg], cwd=wt, env=ENV, capture_output=True, text=True, timeout=900)
    return r.returncode, (r.stdout + r.stderr)[-1500:]

def ingest(name, outdir, prop):
    patch = os.path.join(outdir, "patch.diff")
    demo_rel = open(os.path.join(outdir, "DEMO_PATH.txt")).read().split()[0].strip().lstrip("/")  # some agents append a remark after the path
    demo_src = os.path.join(outdir, os.path.basename(demo_rel))
    wt = worktree("ingest-" + name)
    meta = dict(name=name, property=prop, ran=[])
    try:
        # clean tree: demo must pass
        os.makedirs(os.path.dirname(os.path.join(wt, demo_rel)) or wt, exist_ok=True)
        shutil.copy(demo_src, os.path.join(wt, demo_rel))
        rc0, out0 = run_demo(wt, demo_rel)
        meta["ran"].append(f"clean tree + demo: go test {os.path.dirname(demo_rel) or '.'} -> exit {rc0}")
        r = sh("git", "-C", wt, "apply", patch)
        if r.returncode != 0:
            print("patch does not apply:", r.stderr)
            return 1
        b = subprocess.run(["go", "build", "./..."], cwd=wt, env=ENV, capture_output=True, text=True)
        meta["ran"].append(f"with change: go build ./... -> exit {b.returncode}")
        rc1, out1 = run_demo(wt, demo_rel)
        meta["ran"].append(f"with change + demo: go test -> exit {rc1}")
        os.remove(os.path.join(wt, demo_rel))
        n, f = count_pass(wt)
        meta["ran"].append(f"with change, existing suite (guard off): {n} tests pass, {f} fail")
        ok = rc0 == 0 and b.returncode == 0 and rc1 != 0 and n == 43 and f == 0
        meta["confirmed"] = ok
        print(f"{name}: clean demo exit={rc0}, build={b.returncode}, demo with change exit={rc1}, suite {n} pass/{f} fail -> {'CONFIRMED' if ok else 'REJECTED'}")
        if not ok:
            print(out0[-600:] if rc0 != 0 else out1[-600:])
            return 1
        d = os.path.join(VERIF, "seeded", name)
        os.makedirs(d, exist_ok=True)
        shutil.copy(patch, os.path.join(d, "patch.diff"))
        shutil.copy(demo_src, os.path.join(d, os.path.basename(demo_rel) + ".txt"))  # .txt: must not be compiled as part of /verif
        meta["demo_path_in_repo"] = demo_rel
        rd = os.path.join(outdir, "README.md")
        if os.path.exists(rd):
            shutil.copy(rd, os.path.join(d, "AGENT_README.md"))
        meta["demo_failure_excerpt"] = out1[-700:]
        mp = os.path.join(d, "meta.json")
        if os.path.exists(mp):
            old = json.load(open(mp))
            for k in ("needs_to_manifest", "detected", "summary"):
                if k in old:
                    meta[k] = old[k]
        json.dump(meta, open(mp, "w"), indent=1)
        return 0
    finally:
        drop(wt)

def run(name, ids, tier):
    d = os.path.join(VERIF, "seeded", name)
    meta = json.load(open(os.path.join(d, "meta.json")))
    wt = worktree("run-" + name)
    out = os.path.join(ROOT, "out-" + name)
    shutil.rmtree(out, ignore_errors=True)
    os.makedirs(out)
    try:
        r = sh("git", "-C", wt, "apply", os.path.join(d, "patch.diff"))
        if r.returncode != 0:
            print("patch does not apply:", r.stderr)
            return 1
        det = meta.setdefault("detected", {})
        for pid in ids:
            t0 = time.time()
            r = subprocess.run([os.path.join(VERIF, "check"), pid, tier], env=dict(os.environ, VERIF_REPO=wt, VERIF_OUTDIR=out), capture_output=True, text=True)
            viol = [l for l in r.stdout.splitlines() if l.startswith("VIOLATION")]
            first = viol[0].split("replay=")[1] if viol else ""
            err = ""
            if first and os.path.exists(first):
                try:
                    err = json.load(open(first)).get("error", "")[:300]
                except Exception:
                    pass
                # keep the shrunk replay next to the seeded change
                os.makedirs(os.path.join(d, "replays"), exist_ok=True)
                shutil.copy(first, os.path.join(d, "replays", f"{pid}-{tier}-{os.path.basename(first)}"))
            det[f"{pid}/{tier}"] = dict(exit=r.returncode, wall_s=round(time.time() - t0), error=err)
            print(f"{name:14s} {pid} {tier} exit={r.returncode} wall={time.time()-t0:.0f}s {err[:200]}", flush=True)
            if r.returncode == 2:
                print("   " + r.stderr.strip()[-800:].replace("\n", "\n   "))
            json.dump(meta, open(os.path.join(d, "meta.json"), "w"), indent=1)
    finally:
        drop(wt)
        shutil.rmtree(out, ignore_errors=True)
    return 0

def table():
    base = os.path.join(VERIF, "seeded")
    for name in sorted(os.listdir(base)):
        mp = os.path.join(base, name, "meta.json")
        if not os.path.exists(mp):
            continue
        m = json.load(open(mp))
        caught = sorted(k for k, v in m.get("detected", {}).items() if v["exit"] == 1)
        missed = sorted(k for k, v in m.get("detected", {}).items() if v["exit"] == 0)
        print(f"{name:16s} breaks {m['property']}  caught by: {' '.join(caught) or '-'}   silent: {' '.join(missed) or '-'}")

def main():
    a = sys.argv[1:]
    if not a:
        print(__doc__)
        return 2
    if a[0] == "ingest":
        return ingest(a[1], a[2], a[3])
    if a[0] == "run":
        ids = ALL if len(a) < 3 or a[2] == "all" else a[2].split(",")
        return run(a[1], ids, a[3] if len(a) > 3 else "quick")
    if a[0] == "table":
        return table()
    print(__doc__)
    return 2

if __name__ == "__main__":
    sys.exit(main())
