package phase3

import (
	"fmt"
	"testing"

	"github.com/nulab/autog/internal/graph"
	"pgregory.net/rapid"
)

// C12K — "the crossing counter is exact" (second sentence of C12), decided directly on the counter.
//
// The Layout-level check (verifh.TestC12*) only ever sees the counter's answer for the FINAL order, which crossing
// minimisation has made nearly crossing-free. Here the counter is given arbitrary proper layerings in arbitrary orders
// (what it sees during the sweeps, when its answers steer the search): stacks of layers, every edge between adjacent
// layers and pointing downward (the state after long edges were broken), no two edges on the same node pair (the
// property excludes parallel/antiparallel edges), LayerPos a permutation of 0..w-1 per layer, the Nodes slice either in
// position order or not (both occur in the ordering phase: transpose swaps positions without re-sorting the slice).
// Oracle: naive O(E^2) inversion count per gap, written on the case's integers (no graph structures shared with
// the code under test).

type XCase struct {
	Widths []int    `json:"widths"`         // nodes per layer, top to bottom; layer i has index i
	Pos    [][]int  `json:"pos"`            // Pos[i][j] = LayerPos of the j-th node of layer i's Nodes slice
	Edges  [][3]int `json:"edges"`          // (gap g, j in layer g, k in layer g+1) in insertion order: node j of layer g -> node k of layer g+1
	Virt   []int    `json:"virt,omitempty"` // flat node numbers marked virtual (must not matter)
	Around int      `json:"around"`         // layer index handed to crossingsAround
}

var propC12K = register(&Property{
	ID: "C12K",
	Rule: "crossing counter on arbitrary proper layerings: 2-6 layers (sometimes 66-70, so that layer indices pass 64) of 1-14 nodes (sometimes 65-85, 182-202, 257-277 or 513-533: positions beyond 64, layer pairs beyond 2^15, 2^16 and 2^18 cells), " +
		"downward edges between adjacent layers, no repeated node pair, LayerPos a drawn permutation, Nodes slice in or out of position order; " +
		"oracle: countCrossings per gap, crossings(all) and crossingsAround(l) equal the naive inversion count. non-trivial = some gap with >= 1 crossing and >= 3 nodes on both sides",
	New:   func() any { return &XCase{} },
	Gen:   func(rt *rapid.T, s *Stats) any { return genXCase(rt) },
	Check: func(c any) *Outcome { return checkC12K(c.(*XCase)) },
})

func TestC12Counter(t *testing.T) { runGenerated(t, propC12K) }

func genXCase(rt *rapid.T) *XCase {
	c := &XCase{}
	nl := rapid.IntRange(2, 6).Draw(rt, "layers")
	deep := rapid.IntRange(0, 39).Draw(rt, "deep") == 0
	if deep {
		nl = rapid.IntRange(66, 70).Draw(rt, "deep_layers")
	}
	wide := !deep && rapid.IntRange(0, 19).Draw(rt, "wide") == 0
	maxW := 14
	if deep {
		maxW = 4
	}
	for i := 0; i < nl; i++ {
		w := rapid.IntRange(1, maxW).Draw(rt, "w")
		if wide && rapid.IntRange(0, 1).Draw(rt, "widelayer") == 0 {
			// just beyond 64 positions, or beyond 2^15, 2^16, 2^18 matrix cells for a layer pair (seeded/r6-m12 switches
			// to another edge sort above 2^15 cells - the end-to-end check cannot afford such layers, this one can)
			lo := []int{65, 182, 257, 513}[rapid.IntRange(0, 3).Draw(rt, "wwclass")]
			w = rapid.IntRange(lo, lo+20).Draw(rt, "ww")
		}
		c.Widths = append(c.Widths, w)
		var pos []int
		if rapid.IntRange(0, 1).Draw(rt, "sorted") == 0 {
			for j := 0; j < w; j++ {
				pos = append(pos, j)
			}
		} else {
			pos = rapid.Permutation(iotaX(w)).Draw(rt, "pos")
		}
		c.Pos = append(c.Pos, pos)
	}
	for g := 0; g+1 < nl; g++ {
		a, b := c.Widths[g], c.Widths[g+1]
		maxE := a * b
		if maxE > 3*(a+b) {
			maxE = 3 * (a + b)
		}
		// density classes: empty gap, sparse, dense, complete bipartite
		var m int
		switch rapid.IntRange(0, 9).Draw(rt, "density") {
		case 0:
			m = 0
		case 1:
			m = a * b // complete (only feasible for small layers; capped below by the attempt loop)
			if m > 200 {
				m = 200
			}
		default:
			m = rapid.IntRange(0, maxE).Draw(rt, "m")
		}
		seen := map[[2]int]bool{}
		for t := 0; t < m; t++ {
			j := rapid.IntRange(0, a-1).Draw(rt, "j")
			k := rapid.IntRange(0, b-1).Draw(rt, "k")
			if seen[[2]int{j, k}] {
				continue
			}
			seen[[2]int{j, k}] = true
			c.Edges = append(c.Edges, [3]int{g, j, k})
		}
	}
	if rapid.IntRange(0, 2).Draw(rt, "shuffle_edges") == 0 && len(c.Edges) > 1 {
		// edges of different gaps interleaved: a middle node's In/Out lists then alternate between its two gaps
		c.Edges = rapid.Permutation(c.Edges).Draw(rt, "edge_order")
	}
	total := 0
	for _, w := range c.Widths {
		total += w
	}
	nv := rapid.IntRange(0, 3).Draw(rt, "nvirt")
	for i := 0; i < nv; i++ {
		c.Virt = append(c.Virt, rapid.IntRange(0, total-1).Draw(rt, "virt"))
	}
	c.Around = rapid.IntRange(0, nl-1).Draw(rt, "around")
	return c
}

func iotaX(n int) []int {
	s := make([]int, n)
	for i := range s {
		s[i] = i
	}
	return s
}

func (c *XCase) wellFormed() error {
	if len(c.Widths) < 2 || len(c.Pos) != len(c.Widths) {
		return fmt.Errorf("need >= 2 layers and one position list per layer")
	}
	for i, w := range c.Widths {
		if w < 1 || len(c.Pos[i]) != w {
			return fmt.Errorf("layer %d: width %d, %d positions", i, w, len(c.Pos[i]))
		}
		seen := make([]bool, w)
		for _, p := range c.Pos[i] {
			if p < 0 || p >= w || seen[p] {
				return fmt.Errorf("layer %d: positions are not a permutation", i)
			}
			seen[p] = true
		}
	}
	seen := map[[3]int]bool{}
	for _, e := range c.Edges {
		if e[0] < 0 || e[0]+1 >= len(c.Widths) || e[1] < 0 || e[1] >= c.Widths[e[0]] || e[2] < 0 || e[2] >= c.Widths[e[0]+1] {
			return fmt.Errorf("edge %v out of range", e)
		}
		if seen[e] {
			return fmt.Errorf("edge %v repeated (parallel edges are outside C12)", e)
		}
		seen[e] = true
	}
	if c.Around < 0 || c.Around >= len(c.Widths) {
		return fmt.Errorf("around out of range")
	}
	return nil
}

// naive inversion count of gap g, on positions
func (c *XCase) naive(g int) int {
	type pe struct{ u, v int }
	var es []pe
	for _, e := range c.Edges {
		if e[0] == g {
			es = append(es, pe{c.Pos[g][e[1]], c.Pos[g+1][e[2]]})
		}
	}
	x := 0
	for i := 0; i < len(es); i++ {
		for j := i + 1; j < len(es); j++ {
			a, b := es[i], es[j]
			if (a.u < b.u && a.v > b.v) || (a.u > b.u && a.v < b.v) {
				x++
			}
		}
	}
	return x
}

func checkC12K(c *XCase) *Outcome {
	o := &Outcome{}
	if err := c.wellFormed(); err != nil {
		return o.failf("malformed case: %v", err)
	}
	// build the internal structures
	layers := make([]*graph.Layer, len(c.Widths))
	nodes := make([][]*graph.Node, len(c.Widths))
	flat := 0
	virt := map[int]bool{}
	for _, v := range c.Virt {
		virt[v] = true
	}
	for i, w := range c.Widths {
		layers[i] = &graph.Layer{Index: i}
		for j := 0; j < w; j++ {
			n := &graph.Node{ID: fmt.Sprintf("L%d_%d", i, j), Layer: i, LayerPos: c.Pos[i][j], IsVirtual: virt[flat]}
			flat++
			nodes[i] = append(nodes[i], n)
			layers[i].Nodes = append(layers[i].Nodes, n)
		}
	}
	for _, e := range c.Edges {
		from, to := nodes[e[0]][e[1]], nodes[e[0]+1][e[2]]
		ed := graph.NewEdge(from, to, 1)
		from.Out.Add(ed)
		to.In.Add(ed)
	}
	var perr any
	func() {
		defer func() { perr = recover() }()
		total, want := 0, 0
		nontrivial := false
		for g := 0; g+1 < len(layers); g++ {
			exp := c.naive(g)
			got := countCrossings(layers[g], layers[g+1])
			if got != exp {
				o.failf("gap %d (layers of %d and %d nodes): countCrossings = %d, the naive inversion count is %d", g, c.Widths[g], c.Widths[g+1], got, exp)
				return
			}
			total += got
			want += exp
			if exp >= 1 && c.Widths[g] >= 3 && c.Widths[g+1] >= 3 {
				nontrivial = true
			}
		}
		if got := crossings(layers); got != want {
			o.failf("crossings(all layers) = %d, the naive count is %d", got, want)
			return
		}
		l := c.Around
		expA := 0
		if l > 0 {
			expA += c.naive(l - 1)
		}
		if l+1 < len(layers) {
			expA += c.naive(l)
		}
		if got := crossingsAround(l, layers); got != expA {
			o.failf("crossingsAround(%d) = %d, the naive count is %d", l, got, expA)
			return
		}
		o.NonTrivial = nontrivial
		o.classIf(len(layers) > 64, "layer index >= 64")
		wide := false
		for _, w := range c.Widths {
			if w > 64 {
				wide = true
			}
		}
		o.classIf(wide, "position >= 64")
		o.classIf(want == 0, "no crossing at all")
		o.classIf(want >= 50, ">= 50 crossings")
	}()
	if perr != nil {
		return o.failf("crossing counter panicked: %v", perr)
	}
	return o
}
