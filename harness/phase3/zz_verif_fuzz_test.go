package phase3

import "testing"

// Native fuzz target for the crossing counter (see fuzzTarget in zz_verif_infra_test.go).
func FuzzC12Counter(f *testing.F) { fuzzTarget(f, propC12K) }
