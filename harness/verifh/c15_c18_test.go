package verifh

import (
	"errors"
	"fmt"
	"math"
	"os"
	"reflect"
	"runtime"
	"strings"
	"sync"
	"testing"

	"github.com/nulab/autog"
	"github.com/nulab/autog/graph"
	"pgregory.net/rapid"
)

// ---------------------------------------------------------------------------------------------------------
// C16 — VAlign centres, PackRight right-aligns, exact spacing

var propC16 = register(&Property{
	ID: "C16",
	Rule: "connected graphs (single component, as stated) x heterogeneous widths incl. 0 x NodeSpacing >= 0 x LayerSpacing > 0 x {VAlign, PackRight} x virtual output on (helper nodes are part of the bands); " +
		"oracle per band (nodes grouped by Y): extent == sum of widths + (count-1)*NodeSpacing, leftmost x == 0, VAlign: all midpoints equal, PackRight: all right ends equal; " +
		"non-trivial = >=3 bands with different node counts, one containing a helper node",
	New:   func() any { return &Case{} },
	Gen:   func(rt *rapid.T, s *Stats) any { return genC16(rt, s) },
	Check: func(c any) *Outcome { return checkC16(c.(*Case)) },
})

func genC16(rt *rapid.T, st *Stats) *Case {
	var n int
	var ies []iedge
	if chance(rt, "huge_band", 1, 150) {
		// one band of hundreds to thousands of nodes: a fan r -> a_0..a_(w-1), a_0 -> b and the long edge r -> b, whose
		// helper node sits in the wide band. w is just below or above a power of two between 128 and 8192 (where
		// blocking, chunking and pooling thresholds live: seeded/r6-m16 sums rows in blocks of 4096 and drops the
		// spacing at the seams). VAlign and PackRight lay such a fan out in well under a second.
		w := 1<<rapid.IntRange(7, 13).Draw(rt, "huge_exp") + rapid.IntRange(-3, 200).Draw(rt, "huge_off")
		n = w + 2
		for i := 0; i < w; i++ {
			ies = append(ies, iedge{0, 1 + i})
		}
		ies = append(ies, iedge{1 + pick(rt, "huge_mid", w), w + 1}, iedge{0, w + 1})
		if rapid.Bool().Draw(rt, "huge_shuffle") {
			ies = rapid.Permutation(ies).Draw(rt, "huge_order")
		}
	} else if chance(rt, "wide", 1, 25) {
		// a band of 33..45 nodes (helper nodes of the added long edges included): thresholds on the length of a row
		// (seeded/r2-m16 sums rows longer than 32 differently) are only reachable there
		n, ies = genRootedWide(rt, rapid.IntRange(1, 2).Draw(rt, "wide_L"), rapid.IntRange(33, 45).Draw(rt, "wide_W"))
		for k := rapid.IntRange(0, 3).Draw(rt, "wide_long"); k > 0 && n > 2; k-- {
			ies = append(ies, iedge{pick(rt, "wl_a", n), pick(rt, "wl_b", n)})
		}
	} else if chance(rt, "medium", 1, 8) {
		n = rapid.IntRange(10, 30).Draw(rt, "n")
		ies = genConnN(rt, n, rapid.IntRange(0, n).Draw(rt, "extra"))
	} else {
		n = rapid.IntRange(2, 10).Draw(rt, "n")
		ies = genConnN(rt, n, rapid.IntRange(0, 8).Draw(rt, "extra"))
		// sprinkle self-loops / parallel copies
		k := rapid.IntRange(0, 2).Draw(rt, "extras")
		for i := 0; i < k; i++ {
			if rapid.Bool().Draw(rt, "xloop") {
				a := pick(rt, "xa", n)
				ies = append(ies, iedge{a, a})
			} else {
				ies = append(ies, ies[pick(rt, "xcopy", len(ies))])
			}
		}
	}
	c := &Case{Edges: toEdges(ies, nameScheme(rt))}
	genOptions(rt, c, NodeIDs(c.Edges), OptSpec{CBs: allCB, Lays: allLay, Poss: []int{PosVAlign, PosPackRight}, Rts: []int{RtNoop, RtPolyline},
		Thorough: false, Virt: false, Sizes: 1, NSZero: true, LSZero: false, DefaultsOK: true})
	c.Virt = true
	// the property does not mention the ordering phase: OrderingNoop is a public option too (no helper nodes then, layers in
	// insertion order, and the positions WMedian would have recorded stay unset - seeded/r5-m16 relied on them)
	if chance(rt, "ordering_noop", 1, 6) {
		c.Ord = 1
	}
	if len(ies) > 120 {
		// a huge band: WMedian's transpose step is quadratic in the width of a layer as soon as there is a crossing to
		// work on (minutes at 8000 nodes, measured the hard way); without the ordering phase the fan is laid out at once
		c.Ord = 1
	}
	return c
}

func checkC16(c *Case) *Outcome {
	o := &Outcome{}
	structuralClasses(c, o)
	optionClasses(c, o)
	if _, nc := Components(c.Edges); nc != 1 {
		return o.failf("bad case: C16 is stated for single-component inputs")
	}
	if c.Pos != PosVAlign && c.Pos != PosPackRight {
		return o.failf("bad case: C16 is about VAlign and PackRight")
	}
	if !c.Virt || c.LayerSpacing() <= 0 {
		return o.failf("bad case: C16 is observed with virtual-node output and LayerSpacing > 0")
	}
	o.classIf(c.Ord == 1, "ordering=noop")
	l, perr := c.Run()
	if perr != nil {
		return o.failf("Layout panicked: %v", perr)
	}
	input := map[string]bool{}
	for _, id := range NodeIDs(c.Edges) {
		input[id] = true
	}
	type ext struct {
		lo, hi, sumw float64
		n            int
		helper       bool
	}
	bands := map[float64]*ext{}
	minx := math.Inf(1)
	for _, n := range l.Nodes {
		b := bands[n.Y]
		if b == nil {
			b = &ext{lo: math.Inf(1), hi: math.Inf(-1)}
			bands[n.Y] = b
		}
		b.lo = math.Min(b.lo, n.X)
		b.hi = math.Max(b.hi, n.X+n.W)
		b.sumw += n.W
		b.n++
		if !input[n.ID] {
			b.helper = true
		}
		minx = math.Min(minx, n.X)
	}
	ns := c.NodeSpacing()
	tol := func(a, b float64) bool {
		return math.Abs(a-b) <= 1e-9*(tolUnit()+math.Abs(a)+math.Abs(b)+ns*float64(len(l.Nodes)))
	}
	if !tol(minx, 0) {
		return o.failf("leftmost node is at x=%v, expected 0", minx)
	}
	var ref float64
	first := true
	counts := map[int]bool{}
	anyHelper := false
	for y, b := range bands {
		want := b.sumw + float64(b.n-1)*ns
		if !tol(b.hi-b.lo, want) {
			return o.failf("band y=%v: extent %v, expected sum of widths %v + %d x NodeSpacing %v = %v", y, b.hi-b.lo, b.sumw, b.n-1, ns, want)
		}
		val := (b.lo + b.hi) / 2
		what := "midpoint"
		if c.Pos == PosPackRight {
			val = b.hi
			what = "right end"
		}
		if first {
			ref, first = val, false
		} else if !tol(val, ref) {
			return o.failf("band y=%v: %s %v differs from another band's %v", y, what, val, ref)
		}
		counts[b.n] = true
		anyHelper = anyHelper || b.helper
	}
	o.classIf(anyHelper, "helper_in_band")
	o.NonTrivial = len(bands) >= 3 && len(counts) >= 2 && anyHelper
	return o
}

func TestC16(t *testing.T) { runGenerated(t, propC16) }

// ---------------------------------------------------------------------------------------------------------
// C17 — scale equivariance

type ScaleCase struct {
	Base *Case `json:"base"`
	K    int   `json:"k"` // factor 2^K
}

var propC17 = register(&Property{
	ID: "C17",
	Rule: "all graph families x {SinkColoring, VAlign, PackRight, BrandesKoepf default/forced} x {Straight, Polyline, Ortho} x sizes and spacings from a dyadic grid x factor 2^k, k in -3..6 (two thirds of the cases) or -30..-10 / 10..30; " +
		"oracle: Layout(c*sizes, c*spacings) == c*Layout(sizes, spacings), bit-exact; non-trivial = >=2 bands with >=2 nodes, >=2 distinct widths and a long edge",
	New:   func() any { return &ScaleCase{} },
	Gen:   func(rt *rapid.T, s *Stats) any { return genC17(rt, s) },
	Check: func(c any) *Outcome { return checkC17(c.(*ScaleCase)) },
})

func genC17(rt *rapid.T, st *Stats) *ScaleCase {
	dyadicOnly = true // exact power-of-two scaling is only claimed on values that keep the arithmetic exact
	defer func() { dyadicOnly = false }()
	maxN, maxM, _ := sizeRegime(rt, 930, 65, 5)
	_, ies, _ := genGraph(rt, GraphSpec{MaxN: maxN, MaxM: maxM, Families: allFam, Union: true, SelfLoops: true, Parallel: true})
	c := &Case{Edges: toEdges(ies, nameScheme(rt))}
	szMode := 0
	if rapid.Bool().Draw(rt, "all_sized") {
		szMode = 1 // every node gets its own size: heterogeneous widths are what makes the relation bite
	}
	genOptions(rt, c, NodeIDs(c.Edges), OptSpec{CBs: allCB, Lays: allLay, Poss: fastPos, BKForced: true, Rts: []int{RtStraight, RtPolyline, RtOrtho},
		Thorough: false, Virt: true, Sizes: szMode, NSZero: true, LSZero: true, DefaultsOK: false})
	// "the same power of two": any. Small exponents mostly; a third of the cases use units far from pixels (2^-30 ..
	// 2^30: metres, normalised coordinates, EMUs). All values stay dyadic with short mantissas and magnitudes between
	// 1e-10 and 1e13, so the arithmetic stays exact. seeded/r6-m17 compares centres with an absolute 1e-6.
	k := rapid.IntRange(-3, 6).Draw(rt, "k")
	switch pick(rt, "k_range", 6) {
	case 0:
		k = rapid.IntRange(-30, -10).Draw(rt, "k_tiny")
	case 1:
		k = rapid.IntRange(10, 30).Draw(rt, "k_huge")
	}
	if k == 0 {
		k = 1
	}
	return &ScaleCase{Base: c, K: k}
}

func checkC17(sc *ScaleCase) *Outcome {
	o := &Outcome{}
	c := sc.Base
	structuralClasses(c, o)
	optionClasses(c, o)
	if c.Pos == PosNS || c.Rt == RtSplines || c.NS == nil || c.LS == nil || sc.K < -30 || sc.K > 30 {
		return o.failf("bad case: outside C17's quantifier")
	}
	f := math.Ldexp(1, sc.K)
	c2 := c.Clone()
	c2.NS, c2.LS = ptr(*c.NS*f), ptr(*c.LS*f)
	c2.Fixed = Sz{c.Fixed.W * f, c.Fixed.H * f}
	for k, v := range c.Sizes {
		c2.Sizes[k] = Sz{v.W * f, v.H * f}
	}
	l1, perr := c.Run()
	if perr != nil {
		return o.failf("Layout panicked: %v", perr)
	}
	l2, perr := c2.Run()
	if perr != nil {
		return o.failf("Layout panicked on the scaled input: %v", perr)
	}
	scaled := graph.Layout{}
	for _, n := range l1.Nodes {
		n.X, n.Y, n.W, n.H = n.X*f, n.Y*f, n.W*f, n.H*f
		scaled.Nodes = append(scaled.Nodes, n)
	}
	for _, e := range l1.Edges {
		pts := e.Points
		e.Points = nil
		if pts != nil {
			e.Points = make([][2]float64, len(pts))
		}
		for i, p := range pts {
			e.Points[i] = [2]float64{p[0] * f, p[1] * f}
		}
		scaled.Edges = append(scaled.Edges, e)
	}
	if !reflect.DeepEqual(scaled, l2) {
		return o.failf("scaling all sizes and spacings by 2^%d does not scale the layout by the same factor:\n%s", sc.K, diffLayouts(scaled, l2))
	}
	// classification
	if bandsUsable(c) {
		v := NewView(c, l1)
		cnt := map[[2]int]int{}
		for _, id := range v.IDs {
			cnt[[2]int{v.Comp[id], v.Band[id]}]++
		}
		wide := 0
		for _, k := range cnt {
			if k >= 2 {
				wide++
			}
		}
		widths := map[float64]bool{}
		for _, n := range l1.Nodes {
			widths[n.W] = true
		}
		o.NonTrivial = wide >= 2 && len(widths) >= 2 && hasLongEdge(c, l1)
	}
	return o
}

func TestC17(t *testing.T) { runGenerated(t, propC17) }

// ---------------------------------------------------------------------------------------------------------
// C18 — a monitor only observes, and only its own call (rapid state machine)

// stampMonitor stamps every event with the id of the call that is executing when the event arrives
type stampMonitor struct {
	owner    int   // id of the call this monitor was passed to
	current  *int  // id of the call executing right now (0 = none)
	stamps   []int // call id per received event
	panicAt  int   // panic inside Log on the panicAt-th event (0 = never)
	persist  bool  // ... and on every later event too: a monitor that is broken for good (closed channel, nil map)
	panicVal int   // what it panics with: 0 a string, 1 an error value, 2 a runtime.Error (nil map write), 3 a runtime.Error (index)
}

const monitorPanicText = "verif: monitor panics on purpose"

func (m *stampMonitor) Log(phase int, alg, key string, val any) {
	m.stamps = append(m.stamps, *m.current)
	if m.panicAt > 0 && (len(m.stamps) == m.panicAt || (m.persist && len(m.stamps) > m.panicAt)) {
		switch m.panicVal {
		case 1:
			panic(errors.New(monitorPanicText))
		case 2:
			var broken map[string]int
			broken[key] = phase // runtime.Error: assignment to entry in nil map
		case 3:
			var none []int
			_ = none[len(m.stamps)] // runtime.Error: index out of range
		}
		panic(monitorPanicText)
	}
}

// isMonitorPanic: the recovered value is what the monitor itself panicked with
func (m *stampMonitor) isMonitorPanic(perr any) bool {
	switch m.panicVal {
	case 2:
		e, ok := perr.(runtime.Error)
		return ok && strings.Contains(e.Error(), "assignment to entry in nil map")
	case 3:
		e, ok := perr.(runtime.Error)
		return ok && strings.Contains(e.Error(), "index out of range")
	}
	return fmt.Sprint(perr) == monitorPanicText
}

type histStep struct {
	Kind     string `json:"kind"` // plain | monitored | reuse | panic-empty | panic-badedge | panic-monitor
	Case     *Case  `json:"case,omitempty"`
	PanicAt  int    `json:"panic_at,omitempty"`
	Persist  bool   `json:"persist,omitempty"`   // panic-monitor: the monitor keeps panicking on every later event and is not repaired afterwards
	PanicVal int    `json:"panic_val,omitempty"` // panic-monitor: see stampMonitor.panicVal
	Reuse    int    `json:"reuse,omitempty"`     // index of the earlier monitor to pass again
}

type HistoryCase struct {
	Steps []histStep `json:"steps"`
}

var propC18 = register(&Property{
	ID: "C18",
	Rule: "rapid state machine over histories of Layout calls: without monitor, with a fresh recording monitor, with an old monitor again, and monitored calls that panic in three ways (empty graph, malformed edge after the monitor was installed, monitor's own Log panics on its j-th event); " +
		"invariants after every step: each monitor only holds events stamped with a call it was passed to, an unmonitored call delivers nothing, layout with monitor == layout without; " +
		"non-trivial = a panicking monitored call followed by >=1 unmonitored call that produces events (>=2 nodes)",
	New:   func() any { return &HistoryCase{} },
	Gen:   nil, // generated by the state machine below; replays run the recorded script
	Check: func(c any) *Outcome { return runHistory(c.(*HistoryCase)) },
})

func genSmallCase(rt *rapid.T) *Case {
	if os.Getenv("VERIF_C18_BIG") == "1" && chance(rt, "big_spline_case", 1, 3) {
		// (TestC18Big only) a component with 66..72 routed edges under the spline router, which logs the most events:
		// behaviour that only switches on above a count (seeded/r2-m18 mutes the monitor beyond 64 routes) is reachable
		// only there. Sparse (50..60 nodes) because such a layout costs 0.1 s, a dense one up to a second.
		n := rapid.IntRange(50, 60).Draw(rt, "big_n")
		ies := genConnN(rt, n, rapid.IntRange(66-(n-1), 72-(n-1)).Draw(rt, "big_extra"))
		k := rapid.IntRange(0, 2).Draw(rt, "big_loops")
		for i := 0; i < k; i++ {
			a := pick(rt, "big_loop_at", n)
			ies = append(ies, iedge{a, a})
		}
		return &Case{Edges: toEdges(ies, nid), CB: detCB[pick(rt, "big_cb", 2)], Pos: []int{PosSink, PosVAlign, PosPackRight}[pick(rt, "big_pos", 3)], Rt: RtSplines,
			SzMode: SzFixed, Fixed: Sz{40, 20}, NS: ptr(10.0), LS: ptr(30.0)}
	}
	// no thin giants in histories (a history has up to 200 steps, each laying its case out twice; TestC18Big has the big cases)
	_, ies, _ := genGraph(rt, GraphSpec{MaxN: 7, MaxM: 10, Families: allFam, Union: true, SelfLoops: true, Parallel: true, NoGiant: true})
	c := &Case{Edges: toEdges(ies, nid)}
	genOptions(rt, c, NodeIDs(c.Edges), OptSpec{CBs: detCB, Lays: allLay, Poss: posFor(len(NodeIDs(c.Edges)), len(ies), allPos), BKForced: true, Rts: allRt,
		Thorough: false, Virt: true, Sizes: 0, NSZero: true, LSZero: true, DefaultsOK: true})
	if c.Rt == RtSplines && !inSplineSafeDomain(c) {
		forceSplineSafe(rt, c, false)
	}
	return c
}

// historyRunner executes steps one by one and checks the invariants after each
type historyRunner struct {
	current           int
	calls             int
	monitors          []*stampMonitor
	owners            [][]int // per monitor: ids of the calls it was passed to
	o                 *Outcome
	sawPanicMonitored bool
	nontrivial        bool
}

func newHistoryRunner() *historyRunner { return &historyRunner{o: &Outcome{}} }

func (h *historyRunner) call(c *Case, src graph.Source, extra ...autog.Option) (l graph.Layout, perr any) {
	h.calls++
	h.current = h.calls
	defer func() { h.current = 0 }()
	if src == nil {
		return c.Run(extra...)
	}
	return c.RunWith(src, c.SizeMap(), extra...)
}

func (h *historyRunner) newMonitor(panicAt int) (*stampMonitor, int) {
	m := &stampMonitor{current: &h.current, panicAt: panicAt}
	h.monitors = append(h.monitors, m)
	h.owners = append(h.owners, nil)
	return m, len(h.monitors) - 1
}

func (h *historyRunner) step(s histStep) error {
	h.o.class("step=" + s.Kind)
	totalBefore := h.totalEvents()
	switch s.Kind {
	case "plain":
		if _, perr := h.call(s.Case, nil); perr != nil {
			return fmt.Errorf("unmonitored Layout panicked: %v", perr)
		}
		if h.totalEvents() != totalBefore {
			return fmt.Errorf("a Layout call without monitor delivered %d events to monitors of earlier calls", h.totalEvents()-totalBefore)
		}
		if h.sawPanicMonitored && len(NodeIDs(s.Case.Edges)) >= 2 {
			h.nontrivial = true
		}
	case "monitored", "reuse":
		var m *stampMonitor
		var mi int
		if s.Kind == "reuse" && len(h.monitors) > 0 {
			mi = s.Reuse % len(h.monitors)
			m = h.monitors[mi]
			m.panicAt, m.persist = 0, false
		} else {
			m, mi = h.newMonitor(0)
		}
		want, perr := h.call(s.Case, nil)
		if perr != nil {
			return fmt.Errorf("unmonitored Layout panicked: %v", perr)
		}
		h.owners[mi] = append(h.owners[mi], h.calls+1)
		got, perr := h.call(s.Case, nil, autog.WithMonitor(m))
		if perr != nil {
			return fmt.Errorf("monitored Layout panicked: %v", perr)
		}
		if !reflect.DeepEqual(want, got) {
			return fmt.Errorf("supplying a monitor changed the layout:\n%s", diffLayouts(want, got))
		}
	case "panic-empty":
		m, mi := h.newMonitor(0)
		h.owners[mi] = append(h.owners[mi], h.calls+1)
		_, perr := h.call(&Case{}, graph.EdgeSlice{}, autog.WithMonitor(m))
		if perr == nil || fmt.Sprint(perr) != "autog: node set is empty" {
			return fmt.Errorf("Layout of an empty graph: expected the documented panic, got %v", perr)
		}
		h.sawPanicMonitored = true
	case "panic-badedge":
		m, mi := h.newMonitor(0)
		h.owners[mi] = append(h.owners[mi], h.calls+1)
		_, perr := h.call(&Case{}, graph.EdgeSlice{{"a", "b"}, {"a", "b", "c"}}, autog.WithMonitor(m))
		if perr == nil || fmt.Sprint(perr) != "graph source: edge must have one source and one target node" {
			return fmt.Errorf("Layout with a malformed edge: expected the documented panic, got %v", perr)
		}
		h.sawPanicMonitored = true
	case "panic-monitor":
		m, mi := h.newMonitor(max(1, s.PanicAt))
		m.persist, m.panicVal = s.Persist, s.PanicVal
		h.owners[mi] = append(h.owners[mi], h.calls+1)
		_, perr := h.call(s.Case, nil, autog.WithMonitor(m))
		if perr != nil {
			if !m.isMonitorPanic(perr) {
				return fmt.Errorf("monitored Layout panicked with something else than the monitor's own panic: %v", perr)
			}
			h.sawPanicMonitored = true
		}
		if !s.Persist {
			m.panicAt = 0
		}
		// a monitor that is broken for good stays broken: it must simply never be called again (a later call that
		// reaches it panics, which the "plain"/"monitored" steps report)
	default:
		return fmt.Errorf("bad case: unknown step kind %q", s.Kind)
	}
	return h.invariant()
}

func (h *historyRunner) totalEvents() int {
	t := 0
	for _, m := range h.monitors {
		t += len(m.stamps)
	}
	return t
}

func (h *historyRunner) invariant() error {
	for i, m := range h.monitors {
		ok := map[int]bool{}
		for _, id := range h.owners[i] {
			ok[id] = true
		}
		for k, st := range m.stamps {
			if !ok[st] {
				return fmt.Errorf("monitor #%d (passed to call(s) %v) received its event #%d while call %d was running", i, h.owners[i], k+1, st)
			}
		}
	}
	return nil
}

func runHistory(hc *HistoryCase) *Outcome {
	h := newHistoryRunner()
	for i, s := range hc.Steps {
		if err := h.step(s); err != nil {
			return h.o.failf("step %d (%s): %v", i+1, s.Kind, err)
		}
	}
	h.o.NonTrivial = h.nontrivial
	return h.o
}

// TestC18Big: the same state machine with big spline cases mixed in (few histories; see genSmallCase)
func TestC18Big(t *testing.T) {
	os.Setenv("VERIF_C18_BIG", "1")
	defer os.Unsetenv("VERIF_C18_BIG")
	TestC18(t)
}

func TestC18(t *testing.T) {
	startWatchdog()
	st := newStats("C18", propC18.Rule)
	defer st.write(false)
	rapid.Check(t, func(rt *rapid.T) {
		h := newHistoryRunner()
		hc := &HistoryCase{}
		var failed error
		do := func(s histStep) {
			hc.Steps = append(hc.Steps, s)
			beginCase("C18", hc)
			err := h.step(s)
			endCase()
			if err != nil {
				failed = fmt.Errorf("step %d (%s): %v", len(hc.Steps), s.Kind, err)
				h.o.Err = failed
				st.record(hc, h.o)
				writeFailCase("C18", hc, failed)
				rt.Fatalf("property C18 violated: %v\nhistory: %s", failed, mustRaw(hc))
			}
		}
		rt.Repeat(map[string]func(*rapid.T){
			"plain":     func(rt *rapid.T) { do(histStep{Kind: "plain", Case: genSmallCase(rt)}) },
			"monitored": func(rt *rapid.T) { do(histStep{Kind: "monitored", Case: genSmallCase(rt)}) },
			"reuse": func(rt *rapid.T) {
				if len(h.monitors) == 0 {
					rt.Skip("no monitor to reuse yet")
				}
				do(histStep{Kind: "reuse", Case: genSmallCase(rt), Reuse: pick(rt, "which", len(h.monitors))})
			},
			"panicEmpty":   func(rt *rapid.T) { do(histStep{Kind: "panic-empty"}) },
			"panicBadEdge": func(rt *rapid.T) { do(histStep{Kind: "panic-badedge"}) },
			"panicMonitor": func(rt *rapid.T) {
				do(histStep{Kind: "panic-monitor", Case: genSmallCase(rt), PanicAt: rapid.IntRange(1, 12).Draw(rt, "panic_at"),
					Persist: rapid.Bool().Draw(rt, "panic_persist"), PanicVal: pick(rt, "panic_val", 4)})
			},
		})
		h.o.NonTrivial = h.nontrivial
		h.o.class(fmt.Sprintf("history_len=%d+", len(hc.Steps)/10*10))
		st.record(hc, h.o)
	})
}

// ---------------------------------------------------------------------------------------------------------
// C15 — concurrent calls do not interfere (harness is built with -race)

type ConcCase struct {
	Jobs       []*Case `json:"jobs"`
	Copies     int     `json:"copies"`     // every job is run by this many goroutines at once
	GoMaxProcs int     `json:"gomaxprocs"` // 1, 2, 4, 16
	Rounds     int     `json:"rounds"`
	SharedOpts bool    `json:"shared_opts,omitempty"` // the copies of a job pass prefixes of ONE option slice (sources stay independent)
}

var propC15 = register(&Property{
	ID: "C15",
	Rule: "k = jobs x copies concurrent Layout calls (2..64 goroutines, released by a common barrier, several rounds, GOMAXPROCS from {1,2,4,16}) over random inputs and option sets (in 1/4 of the cases the copies of a job share one option slice with spare capacity), no monitor; harness built with -race: " +
		"oracle = no race report and every concurrent result DeepEquals the result of the same job run alone beforehand; non-trivial = >=8 goroutines, >=4 distinct jobs, GOMAXPROCS >= 4",
	New:   func() any { return &ConcCase{} },
	Gen:   func(rt *rapid.T, s *Stats) any { return genC15(rt, s) },
	Check: func(c any) *Outcome { return checkC15(c.(*ConcCase)) },
})

func genC15(rt *rapid.T, st *Stats) *ConcCase {
	cc := &ConcCase{}
	nj := rapid.IntRange(1, 8).Draw(rt, "jobs")
	for i := 0; i < nj; i++ {
		maxN, maxM, _ := sizeRegime(rt, 900, 100, 0)
		// no thin giants here: up to 64 copies of a job run under the race detector
		n, ies, _ := genGraph(rt, GraphSpec{MaxN: maxN, MaxM: maxM, Families: allFam, Union: true, SelfLoops: true, Parallel: true, NoGiant: true})
		c := &Case{Edges: toEdges(ies, nid)}
		genOptions(rt, c, NodeIDs(c.Edges), OptSpec{CBs: detCB, Lays: allLay, Poss: posFor(n, len(ies), allPos), BKForced: true, Rts: allRt,
			Thorough: true, ThoroughLow: true, Virt: true, Sizes: 0, NSZero: true, LSZero: true, DefaultsOK: true})
		avoidK3(rt, c, st, false, []int{RtPolyline, RtStraight, RtOrtho, RtNoop})
		cc.Jobs = append(cc.Jobs, c)
	}
	cc.Copies = rapid.IntRange(1, 8).Draw(rt, "copies")
	if nj*cc.Copies < 2 {
		cc.Copies = 2
	}
	cc.GoMaxProcs = []int{1, 2, 4, 16}[pick(rt, "gomaxprocs", 4)]
	cc.Rounds = rapid.IntRange(1, 4).Draw(rt, "rounds")
	// option values are plain data a caller may share between goroutines: in a quarter of the cases all copies of a job
	// pass (prefixes of) one and the same option slice, which has spare capacity (seeded/r4-m15: Layout appended to it)
	cc.SharedOpts = chance(rt, "shared_opts", 1, 4)
	if chance(rt, "wide_job", 1, 12) {
		// one job with layers of 33..40 nodes: buffers that are only shared / pooled above a size threshold
		// (seeded/r2-m15 pools crossing-counter trees for layers wider than 32) are reachable only there
		n, ies := genRootedWide(rt, 2, rapid.IntRange(33, 36).Draw(rt, "wide_W"))
		_ = n
		c := &Case{Edges: toEdges(ies, nid), Pos: []int{PosVAlign, PosSink, PosPackRight}[pick(rt, "wide_pos", 3)], Rt: []int{RtPolyline, RtNoop}[pick(rt, "wide_rt", 2)],
			Lay: pick(rt, "wide_lay", 2), SzMode: SzFixed, Fixed: Sz{40, 20}}
		cc.Jobs = append(cc.Jobs, c)
		cc.Copies = max(2, min(cc.Copies, 3)) // under the race detector one such layout costs seconds
		cc.Rounds = 1
		if cc.GoMaxProcs < 4 {
			cc.GoMaxProcs = 4
		}
	}
	if chance(rt, "long_jobs", 1, 8) {
		// two or three jobs that keep an iterative phase busy for long: regular fishbones (every spine node has one leaf
		// pointing into it, the leaf edge listed first) of 40..140 teeth cost SinkColoring about one align/shift round
		// per tooth and a few milliseconds. Budgets, counters and scratch state that one call consumes and another
		// call (wrongly) shares only show when the concurrent calls together need a lot of it: seeded/r6-m15 counts
		// shift rounds of all calls in flight on one atomic counter behind a pointer in the default options - no data
		// race, and small jobs never come near its limit of 100.
		for k := rapid.IntRange(2, 3).Draw(rt, "long_count"); k > 0; k-- {
			teeth := rapid.IntRange(40, 140).Draw(rt, "teeth")
			var ies []iedge
			for i := 0; i < teeth; i++ {
				ies = append(ies, iedge{2*i + 1, 2 * i})
				if i > 0 {
					ies = append(ies, iedge{2 * (i - 1), 2 * i})
				}
			}
			c := &Case{Edges: toEdges(ies, nid), Pos: PosSink, Rt: []int{RtPolyline, RtNoop}[pick(rt, "long_rt", 2)], Lay: pick(rt, "long_lay", 2),
				SzMode: SzFixed, Fixed: Sz{40, 20}}
			cc.Jobs = append(cc.Jobs, c)
		}
		cc.Copies = max(2, min(cc.Copies, 3))
		if cc.GoMaxProcs < 4 {
			cc.GoMaxProcs = 4
		}
	}
	return cc
}

func checkC15(cc *ConcCase) *Outcome {
	o := &Outcome{}
	if len(cc.Jobs) == 0 || cc.Copies < 1 || cc.Rounds < 1 {
		return o.failf("bad case")
	}
	old := runtime.GOMAXPROCS(max(1, cc.GoMaxProcs))
	defer runtime.GOMAXPROCS(old)
	ref := make([]graph.Layout, len(cc.Jobs))
	for i, c := range cc.Jobs {
		if c.CB == CBGreedyRandom {
			return o.failf("bad case: the non-deterministic greedy option is outside C15")
		}
		l, perr := c.Run()
		if perr != nil {
			return o.failf("job %d panicked when run alone: %v", i, perr)
		}
		ref[i] = l
	}
	k := len(cc.Jobs) * cc.Copies
	o.class(fmt.Sprintf("gomaxprocs=%d", cc.GoMaxProcs))
	o.classIf(cc.SharedOpts && cc.Copies >= 2, "copies_share_one_option_slice")
	for round := 0; round < cc.Rounds; round++ {
		start := make(chan struct{})
		var wg sync.WaitGroup
		errs := make([]error, k)
		// shared option slices: one per job, length n+1 (the last entry restates a default: WithOrdering(WMedian)), capacity
		// n+4; copy number i passes the first n + i%2 entries, so the calls see different lengths of one backing array
		var shared [][]autog.Option
		if cc.SharedOpts {
			for _, c := range cc.Jobs {
				base := c.Options(c.SizeMap())
				buf := make([]autog.Option, len(base)+1, len(base)+4)
				copy(buf, base)
				buf[len(base)] = autog.WithOrdering(autog.OrderingWMedian)
				shared = append(shared, buf)
			}
		}
		for g := 0; g < k; g++ {
			g := g
			c := cc.Jobs[g%len(cc.Jobs)]
			src, sizes := c.EdgeSlice(), c.SizeMap() // independent sources
			var opts []autog.Option
			if cc.SharedOpts {
				buf := shared[g%len(cc.Jobs)]
				opts = buf[:len(buf)-1+(g/len(cc.Jobs))%2]
			} else {
				opts = c.Options(sizes)
			}
			wg.Add(1)
			go func() {
				defer wg.Done()
				<-start
				l, perr := c.RunOpts(src, opts)
				if perr != nil {
					errs[g] = fmt.Errorf("goroutine %d (job %d) panicked: %v", g, g%len(cc.Jobs), perr)
					return
				}
				if !reflect.DeepEqual(l, ref[g%len(cc.Jobs)]) {
					errs[g] = fmt.Errorf("goroutine %d (job %d) returned a different layout than the same job run alone:\n%s", g, g%len(cc.Jobs), diffLayouts(ref[g%len(cc.Jobs)], l))
				}
			}()
		}
		close(start)
		wg.Wait()
		for _, e := range errs {
			if e != nil {
				return o.failf("round %d, %d goroutines, GOMAXPROCS=%d: %v", round+1, k, cc.GoMaxProcs, e)
			}
		}
	}
	o.NonTrivial = k >= 8 && len(cc.Jobs) >= 4 && cc.GoMaxProcs >= 4
	return o
}

func TestC15(t *testing.T) { runGenerated(t, propC15) }
