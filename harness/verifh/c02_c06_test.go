package verifh

import (
	"math"
	"sort"
	"testing"

	"github.com/nulab/autog/graph"
	"pgregory.net/rapid"
)

// avoidK3 keeps a drawn case out of known-finding class K3 (splines outside D_S): half of the time the case is moved
// into D_S, otherwise another routing style is drawn. Counted in the evidence.
func avoidK3(rt *rapid.T, c *Case, st *Stats, big bool, otherRts []int) {
	if c.Rt != RtSplines || inSplineSafeDomain(c) {
		return
	}
	st.exclude("K3-splines-outside-safe-domain")
	if len(otherRts) == 0 || rapid.Bool().Draw(rt, "k3_force_safe") {
		forceSplineSafe(rt, c, big)
	} else {
		c.Rt = otherRts[pick(rt, "k3_other_rt", len(otherRts))]
	}
}

// posFor drops the NetworkSimplex positioner for graphs beyond its documented reach ("might be time-intensive for
// graphs above a few dozen nodes"): its auxiliary graph has a node per node, per edge and per band an edge crosses,
// and the solver is super-quadratic (measured: 19 nodes / 83 edges with longest-path layering took 50 s).
func posFor(n, m int, poss []int) []int {
	// sparse graphs (a tree plus at most 3 extra edges) stay cheap up to 48 nodes (measured worst 2.2 s): kept in, because
	// size thresholds inside the code (32, 64 ...) are only reachable there (seeded/r2-m09 switches behaviour above 32 nodes)
	if (n <= 16 && m <= 24) || (n <= 48 && m <= n+3) {
		return poss
	}
	var out []int
	for _, p := range poss {
		if p != PosNS {
			out = append(out, p)
		}
	}
	return out
}

// bandsUsable: bands can be derived from Y only if consecutive bands cannot coincide (LayerSpacing > 0) and, with
// helper nodes in the output, input IDs cannot be mistaken for helper IDs.
func bandsUsable(c *Case) bool {
	return c.LayerSpacing() > 0 && !(c.Virt && hasHelperLikeID(c.Edges))
}

// ---------------------------------------------------------------------------------------------------------
// C02 — output graph = input graph, sizes as configured

var propC02 = register(&Property{
	ID: "C02",
	Rule: "all graph families (adversarial IDs in 1/3 of the cases) x all algorithm combinations x size options {none, fixed, per-node all/some/none/extra, fixed+per-node} x virtual output on/off; " +
		"non-trivial = (a reversed edge and a long edge) or (a self-loop and >=2 components); distinct = canonical JSON",
	New:   func() any { return &Case{} },
	Gen:   func(rt *rapid.T, s *Stats) any { return genC02(rt, s) },
	Check: func(c any) *Outcome { return checkC02(c.(*Case)) },
})

func genC02(rt *rapid.T, st *Stats) *Case {
	maxN, maxM, _ := sizeRegime(rt, 960, 38, 2)
	n, ies, _ := genGraph(rt, GraphSpec{MaxN: maxN, MaxM: maxM, Families: allFam, Union: true, SelfLoops: true, Parallel: true})
	ids := genIDs(rt, n, chance(rt, "adversarial_ids", 1, 3))
	c := &Case{Edges: toEdges(ies, func(i int) string { return ids[i] })}
	genOptions(rt, c, NodeIDs(c.Edges), OptSpec{CBs: allCB, Lays: allLay, Poss: posFor(n, len(ies), allPos), BKForced: true, Rts: allRt,
		Thorough: true, Virt: true, Sizes: 0, NSZero: true, LSZero: true, DefaultsOK: true})
	avoidK3(rt, c, st, n > 24, []int{RtPolyline, RtStraight, RtOrtho, RtNoop})
	return c
}

func checkC02(c *Case) *Outcome {
	o := &Outcome{}
	_, _, loops, ncomp := structuralClasses(c, o)
	optionClasses(c, o)
	o.class([]string{"sizes=none", "sizes=fixed", "sizes=per-node", "sizes=fixed+per-node"}[c.SzMode])
	o.classIf(c.Virt, "virt")
	l, perr := c.Run()
	if perr != nil {
		return o.failf("Layout panicked: %v", perr)
	}
	ids := NodeIDs(c.Edges)
	isInput := map[string]bool{}
	for _, id := range ids {
		isInput[id] = true
	}
	got := map[string][]graph.Node{}
	for _, n := range l.Nodes {
		got[n.ID] = append(got[n.ID], n)
	}
	surplus := 0
	for id, ns := range got {
		if !isInput[id] {
			if !c.Virt {
				return o.failf("returned node %q is not an input node", id)
			}
			surplus += len(ns)
			for _, n := range ns {
				if n.W != 0 || n.H != 0 {
					return o.failf("helper node %q has size %vx%v", id, n.W, n.H)
				}
			}
			continue
		}
		if !c.Virt && len(ns) != 1 {
			return o.failf("input node %q returned %d times", id, len(ns))
		}
	}
	for _, id := range ids {
		ns := got[id]
		if len(ns) == 0 {
			return o.failf("input node %q is missing from the output", id)
		}
		want := c.ConfiguredSize(id)
		match := 0
		for _, n := range ns {
			if n.W == want.W && n.H == want.H {
				match++
			}
		}
		if match == 0 {
			return o.failf("node %q has size %vx%v, configured %vx%v", id, ns[0].W, ns[0].H, want.W, want.H)
		}
		if len(ns) > 1 {
			// only legitimate when a helper node carries the same ID as a user node (e.g. a user node called "V1")
			if !c.Virt || !helperLike.MatchString(id) {
				return o.failf("input node %q returned %d times", id, len(ns))
			}
			for _, n := range ns {
				if !(n.W == want.W && n.H == want.H) && !(n.W == 0 && n.H == 0) {
					return o.failf("node %q returned with size %vx%v (neither configured nor helper)", id, n.W, n.H)
				}
			}
			surplus += len(ns) - 1
		}
	}
	// edges: same multiset of (from,to), self-loops unrouted
	want := map[[2]string]int{}
	for _, e := range c.Edges {
		want[e]++
	}
	gotE := map[[2]string]int{}
	reversed := false
	for _, e := range l.Edges {
		gotE[[2]string{e.FromID, e.ToID}]++
		if e.FromID == e.ToID && len(e.Points) != 0 {
			return o.failf("self-loop %q has %d route points", e.FromID, len(e.Points))
		}
		reversed = reversed || e.ArrowHeadStart
	}
	if len(l.Edges) != len(c.Edges) {
		return o.failf("%d edges returned for %d input edges", len(l.Edges), len(c.Edges))
	}
	for k, w := range want {
		if gotE[k] != w {
			return o.failf("edge %q->%q returned %d times, given %d times", k[0], k[1], gotE[k], w)
		}
	}
	// helper count = sum over edges of (span-1), when bands are decidable
	long := false
	if bandsUsable(c) {
		v := NewView(c, l)
		wantHelpers := 0
		for _, e := range l.Edges {
			d := v.Band[e.FromID] - v.Band[e.ToID]
			if d < 0 {
				d = -d
			}
			if d > 1 {
				long = true
				wantHelpers += d - 1
			}
		}
		if c.Virt && surplus != wantHelpers {
			return o.failf("%d helper nodes returned, but the edges span %d intermediate bands in total", surplus, wantHelpers)
		}
	}
	o.classIf(long, "long_edge")
	o.classIf(reversed, "reversed_edge")
	o.NonTrivial = (reversed && long) || (loops && ncomp >= 2)
	return o
}

func TestC02(t *testing.T) { runGenerated(t, propC02) }

// ---------------------------------------------------------------------------------------------------------
// C03 — bands and downward flow

var propC03 = register(&Property{
	ID: "C03",
	Rule: "all graph families (cyclic and acyclic, parallel/antiparallel edges, motifs, unions) x all cycle breakers x both layerers x all positioners x LayerSpacing > 0 x heterogeneous heights incl. 0; " +
		"non-trivial = a component with >=3 bands and (cyclic input or a parallel pair in an acyclic input)",
	New:   func() any { return &Case{} },
	Gen:   func(rt *rapid.T, s *Stats) any { return genC03(rt, s) },
	Check: func(c any) *Outcome { return checkC03(c.(*Case)) },
})

func genBandCase(rt *rapid.T, fams []int, cbs, lays, poss, rts []int, sizes int, virt bool, regimeW [3]int) *Case {
	maxN, maxM, _ := sizeRegime(rt, regimeW[0], regimeW[1], regimeW[2])
	n, ies, _ := genGraph(rt, GraphSpec{MaxN: maxN, MaxM: maxM, Families: fams, Union: true, SelfLoops: true, Parallel: true})
	c := &Case{Edges: toEdges(ies, nameScheme(rt))}
	genOptions(rt, c, NodeIDs(c.Edges), OptSpec{CBs: cbs, Lays: lays, Poss: posFor(n, len(ies), poss), BKForced: true, Rts: rts,
		Thorough: true, Virt: virt, Sizes: sizes, IntForNS: true, NSZero: true, LSZero: false, DefaultsOK: true})
	return c
}

func regimeW(quick, thor [3]int) [3]int {
	if thorough() {
		return thor
	}
	return quick
}

func genC03(rt *rapid.T, st *Stats) *Case {
	if chance(rt, "medium_connected", 1, 4) {
		// connected graphs of 8..30 nodes: where the network simplex actually pivots and balances (a seeded change that
		// needs a 12-node structure - seeded/r2-m03 - was invisible to the small-graph regime)
		n := rapid.IntRange(8, 30).Draw(rt, "n")
		ies := genConnN(rt, n, rapid.IntRange(0, n+4).Draw(rt, "extra"))
		c := &Case{Edges: toEdges(ies, nameScheme(rt))}
		genOptions(rt, c, NodeIDs(c.Edges), OptSpec{CBs: allCB, Lays: []int{LayNS, LayNS, LayLP}, Poss: posFor(n, len(ies), []int{PosVAlign, PosSink, PosPackRight, PosBK}), BKForced: true,
			Rts: []int{RtNoop, RtStraight}, Thorough: true, Virt: false, Sizes: 0, NSZero: true, LSZero: false, DefaultsOK: true})
		return c
	}
	return genBandCase(rt, allFam, allCB, allLay, allPos, []int{RtNoop, RtStraight}, 0, false, regimeW([3]int{900, 95, 5}, [3]int{700, 270, 30}))
}

func checkC03(c *Case) *Outcome {
	o := &Outcome{}
	cyclic, par, _, _ := structuralClasses(c, o)
	optionClasses(c, o)
	l, perr := c.Run()
	if perr != nil {
		return o.failf("Layout panicked: %v", perr)
	}
	v := NewView(c, l)
	if !v.AllReturned() {
		return o.failf("not all input nodes were returned (see C02)")
	}
	ls := c.LayerSpacing()
	maxBands := 0
	for ci := 0; ci < v.NComp; ci++ {
		nb := v.NBand[ci]
		maxBands = max(maxBands, nb)
		for b := 1; b < nb; b++ {
			prevY, prevH, y := v.BandY[[2]int{ci, b - 1}], v.BandH[[2]int{ci, b - 1}], v.BandY[[2]int{ci, b}]
			need := prevY + prevH + ls
			if y < need-1e-9*(tolUnit()+math.Abs(need)) {
				return o.failf("component %d: band %d starts at y=%v, but the band above ends at %v (+ LayerSpacing %v = %v)", ci, b, y, prevY+prevH, ls, need)
			}
		}
	}
	for _, e := range l.Edges {
		if e.FromID == e.ToID {
			continue
		}
		bf, bt := v.Band[e.FromID], v.Band[e.ToID]
		if bf == bt {
			return o.failf("edge %q->%q joins two nodes of the same band (y=%v)", e.FromID, e.ToID, v.Real[e.FromID].Y)
		}
		up := bf > bt
		if up != e.ArrowHeadStart {
			return o.failf("edge %q->%q: runs upward=%v but ArrowHeadStart=%v", e.FromID, e.ToID, up, e.ArrowHeadStart)
		}
		if up && !cyclic {
			return o.failf("acyclic input, but edge %q->%q runs upward", e.FromID, e.ToID)
		}
	}
	o.classIf(maxBands >= 3, "bands>=3")
	o.NonTrivial = maxBands >= 3 && (cyclic || par)
	return o
}

func TestC03(t *testing.T) { runGenerated(t, propC03) }

// ---------------------------------------------------------------------------------------------------------
// C04 — no overlaps, spacing kept

var propC04 = register(&Property{
	ID: "C04",
	Rule: "all graph families incl. unions x size-aware positioners (NetworkSimplex: integer sizes/spacing, <=12 nodes) x heterogeneous W/H incl. 0 x NodeSpacing >= 0 x LayerSpacing > 0 x virtual output on/off; " +
		"non-trivial = some band holds >=3 nodes of at least two different widths",
	New:   func() any { return &Case{} },
	Gen:   func(rt *rapid.T, s *Stats) any { return genC04(rt, s) },
	Check: func(c any) *Outcome { return checkC04(c.(*Case)) },
})

func genC04(rt *rapid.T, st *Stats) *Case {
	w := regimeW([3]int{900, 95, 5}, [3]int{750, 220, 30})
	maxN, maxM, _ := sizeRegime(rt, w[0], w[1], w[2])
	n, ies, _ := genGraph(rt, GraphSpec{MaxN: maxN, MaxM: maxM, Families: allFam, Union: true, SelfLoops: true, Parallel: true})
	c := &Case{Edges: toEdges(ies, nameScheme(rt))}
	poss := sizeAwarePos
	if n > 12 || len(ies) > 24 {
		poss = []int{PosSink, PosVAlign, PosPackRight}
	}
	genOptions(rt, c, NodeIDs(c.Edges), OptSpec{CBs: allCB, Lays: allLay, Poss: poss, Rts: []int{RtNoop, RtPolyline},
		Thorough: false, Virt: true, Sizes: 1, IntForNS: true, NSZero: true, LSZero: false, DefaultsOK: true})
	return c
}

func checkC04(c *Case) *Outcome {
	o := &Outcome{}
	structuralClasses(c, o)
	optionClasses(c, o)
	o.classIf(c.Virt, "virt")
	l, perr := c.Run()
	if perr != nil {
		return o.failf("Layout panicked: %v", perr)
	}
	ns := c.NodeSpacing()
	for _, n := range l.Nodes {
		if !finite(n.X) || !finite(n.Y) || n.X < 0 || n.Y < 0 {
			return o.failf("node %q has a non-finite or negative coordinate (%v,%v)", n.ID, n.X, n.Y)
		}
	}
	tol := func(vals ...float64) float64 {
		m := tolUnit()
		for _, x := range vals {
			m += math.Abs(x)
		}
		return 1e-9 * m
	}
	byY := map[float64][]graph.Node{}
	for _, n := range l.Nodes {
		byY[n.Y] = append(byY[n.Y], n)
	}
	nontrivial := false
	for _, band := range byY {
		sort.Slice(band, func(i, j int) bool { return band[i].X < band[j].X })
		widths := map[float64]bool{}
		for i, a := range band {
			widths[a.W] = true
			for j := i + 1; j < len(band); j++ {
				b := band[j]
				t := tol(a.X, a.W, b.X, b.W, ns)
				// order-agnostic: a zero-width node may sit exactly on a neighbour's border when NodeSpacing is 0
				if !(a.X+a.W+ns <= b.X+t || b.X+b.W+ns <= a.X+t) {
					return o.failf("nodes %q (x=%v w=%v) and %q (x=%v w=%v) share y=%v but are closer than NodeSpacing %v", a.ID, a.X, a.W, b.ID, b.X, b.W, a.Y, ns)
				}
			}
		}
		if len(band) >= 3 && len(widths) >= 2 {
			nontrivial = true
		}
	}
	// open interiors of any two rectangles are disjoint
	nodes := l.Nodes
	for i := range nodes {
		a := nodes[i]
		if a.W <= 0 || a.H <= 0 {
			continue
		}
		for j := i + 1; j < len(nodes); j++ {
			b := nodes[j]
			if b.W <= 0 || b.H <= 0 {
				continue
			}
			t := tol(a.X, a.W, b.X, b.W, a.Y, a.H, b.Y, b.H)
			if a.X < b.X+b.W-t && b.X < a.X+a.W-t && a.Y < b.Y+b.H-t && b.Y < a.Y+a.H-t {
				return o.failf("rectangles of %q %+v and %q %+v intersect", a.ID, a.Size, b.ID, b.Size)
			}
		}
	}
	o.NonTrivial = nontrivial
	return o
}

func TestC04(t *testing.T) { runGenerated(t, propC04) }

// ---------------------------------------------------------------------------------------------------------
// C05 — edges attach to their endpoints, arrow flag marks the target

var propC05 = register(&Property{
	ID: "C05",
	Rule: "all graph families (reversed x long x parallel edges x several components) x all positioners x {Straight, Polyline, Ortho, Splines within D_S} x LayerSpacing > 0; " +
		"non-trivial = an edge that is both reversed and long, in a component other than the first",
	New:   func() any { return &Case{} },
	Gen:   func(rt *rapid.T, s *Stats) any { return genC05(rt, s) },
	Check: func(c any) *Outcome { return checkC05(c.(*Case)) },
})

func genC05(rt *rapid.T, st *Stats) *Case {
	maxN, maxM, _ := sizeRegime(rt, 930, 65, 5)
	gs := GraphSpec{MaxN: maxN, MaxM: maxM, Families: allFam, Union: true, SelfLoops: true, Parallel: true}
	var n int
	var ies []iedge
	if chance(rt, "force_union", 1, 2) {
		// unions of cyclic parts with long edges are what makes a case non-trivial here: build them on purpose
		parts := rapid.IntRange(2, 3).Draw(rt, "parts")
		for p := 0; p < parts; p++ {
			pn, pes := genFamily(rt, []int{FamMulti, FamConn, FamMotif, FamLadder}[pick(rt, "ufam", 4)], GraphSpec{MaxN: 7, MaxM: 12, SelfLoops: true, Parallel: true})
			for _, e := range pes {
				ies = append(ies, iedge{e[0] + n, e[1] + n})
			}
			n += pn
		}
		if len(ies) > 1 {
			ies = rapid.Permutation(ies).Draw(rt, "edge_order")
		}
	} else {
		n, ies, _ = genGraph(rt, gs)
	}
	c := &Case{Edges: toEdges(ies, nameScheme(rt))}
	genOptions(rt, c, NodeIDs(c.Edges), OptSpec{CBs: allCB, Lays: allLay, Poss: posFor(n, len(ies), allPos), BKForced: true, Rts: []int{RtPolyline, RtStraight, RtOrtho, RtSplines},
		Thorough: false, Virt: true, Sizes: 0, IntForNS: false, NSZero: true, LSZero: false, DefaultsOK: true})
	avoidK3(rt, c, st, n > 24, []int{RtPolyline, RtStraight, RtOrtho})
	return c
}

func checkC05(c *Case) *Outcome {
	o := &Outcome{}
	structuralClasses(c, o)
	optionClasses(c, o)
	l, perr := c.Run()
	if perr != nil {
		return o.failf("Layout panicked: %v", perr)
	}
	v := NewView(c, l)
	if !v.AllReturned() {
		return o.failf("not all input nodes were returned (see C02)")
	}
	nontrivial := false
	for _, e := range l.Edges {
		if e.FromID == e.ToID {
			continue
		}
		if len(e.Points) < 2 {
			return o.failf("edge %q->%q has %d route points", e.FromID, e.ToID, len(e.Points))
		}
		for _, p := range e.Points {
			if !finite(p[0]) || !finite(p[1]) {
				return o.failf("edge %q->%q has a non-finite route point %v", e.FromID, e.ToID, p)
			}
		}
		bf, bt := v.Band[e.FromID], v.Band[e.ToID]
		if bf == bt {
			continue // C03's violation; "upper" and "lower" are undefined
		}
		upID, loID := e.FromID, e.ToID
		if bf > bt {
			upID, loID = e.ToID, e.FromID
		}
		up, lo := v.Real[upID], v.Real[loID]
		p0, pn := e.Points[0], e.Points[len(e.Points)-1]
		if !near(p0[0], up.X+up.W/2) || !near(p0[1], up.Y+up.H) {
			return o.failf("edge %q->%q: first point %v is not the bottom-centre (%v,%v) of its upper endpoint %q", e.FromID, e.ToID, p0, up.X+up.W/2, up.Y+up.H, upID)
		}
		if !near(pn[0], lo.X+lo.W/2) || !near(pn[1], lo.Y) {
			return o.failf("edge %q->%q: last point %v is not the top-centre (%v,%v) of its lower endpoint %q", e.FromID, e.ToID, pn, lo.X+lo.W/2, lo.Y, loID)
		}
		// arrowhead end is at ToID: with ArrowHeadStart the first point (upper node) must belong to ToID, otherwise the last (lower)
		arrowAt := loID
		if e.ArrowHeadStart {
			arrowAt = upID
		}
		if arrowAt != e.ToID {
			return o.failf("edge %q->%q: ArrowHeadStart=%v puts the arrowhead at node %q", e.FromID, e.ToID, e.ArrowHeadStart, arrowAt)
		}
		d := bf - bt
		if e.ArrowHeadStart && (d > 1 || d < -1) && v.Comp[e.FromID] > 0 {
			nontrivial = true
		}
	}
	o.NonTrivial = nontrivial
	return o
}

func TestC05(t *testing.T) { runGenerated(t, propC05) }

// ---------------------------------------------------------------------------------------------------------
// C06 — route geometry per style

var propC06 = register(&Property{
	ID: "C06",
	Rule: "connected/ladder/motif/dag/multi graphs (long edges frequent) x size-aware positioners x heterogeneous widths AND heights (uniform for splines: D_S) x each routing style x virtual output on/off x LayerSpacing >= 0 (0 with polyline only when no node has height 0: bands are derived from Y); " +
		"non-trivial = an edge spanning >=3 bands in a drawing whose bands have different heights",
	New:   func() any { return &Case{} },
	Gen:   func(rt *rapid.T, s *Stats) any { return genC06(rt, s) },
	Check: func(c any) *Outcome { return checkC06(c.(*Case)) },
})

func genC06(rt *rapid.T, st *Stats) *Case {
	maxN, maxM, _ := sizeRegime(rt, 900, 95, 5)
	n, ies, _ := genGraph(rt, GraphSpec{MaxN: maxN, MaxM: maxM, Families: []int{FamConn, FamLadder, FamMotif, FamDag, FamMulti}, Union: true, SelfLoops: true, Parallel: true})
	c := &Case{Edges: toEdges(ies, nameScheme(rt))}
	poss := posFor(n, len(ies), sizeAwarePos)
	genOptions(rt, c, NodeIDs(c.Edges), OptSpec{CBs: allCB, Lays: allLay, Poss: poss, Rts: []int{RtPolyline, RtStraight, RtOrtho, RtSplines},
		Thorough: false, Virt: true, Sizes: 1, IntForNS: true, NSZero: true, LSZero: true, DefaultsOK: true})
	if c.Rt == RtSplines && !inSplineSafeDomain(c) {
		st.exclude("K3-splines-outside-safe-domain")
		forceSplineSafe(rt, c, n > 12)
	}
	// LayerSpacing 0 (bands touch) is inside the property and a boundary the orthogonal router treats specially
	// (seeded/r4-m06). Only the polyline clause needs bands derived from Y ("one bend per intermediate band"): there
	// touching bands are fine as long as no band can have height 0, otherwise the spacing is redrawn positive.
	if c.Rt == RtPolyline && c.Virt && !hasHelperLikeID(c.Edges) && c.Sizes != nil && chance(rt, "flat_drawing", 1, 12) {
		// the fully collapsed drawing: LayerSpacing 0 and every node of height 0 - all layers on one line
		c.LS = ptr(0.0)
		c.Fixed.H = 0
		for id, sz := range c.Sizes {
			c.Sizes[id] = Sz{sz.W, 0}
		}
	}
	if c.Rt == RtPolyline && c.LayerSpacing() == 0 && anyZeroHeight(c) {
		// ... except that with the helper nodes in the output the clause "one helper node per bend, at the bend's x" needs
		// no bands at all: half of these cases keep the collapsed bands (LayerSpacing 0 AND zero-height layers - bends of
		// consecutive bands may then coincide exactly; seeded/r7-m06 dropped "duplicate" points) and are judged by that
		// clause, by monotone y and by bends-outside-nodes only.
		if !(c.Virt && !hasHelperLikeID(c.Edges) && rapid.Bool().Draw(rt, "keep_collapsed_bands")) {
			c.LS = ptr(genDim(rt, "ls_pos", false))
		}
	}
	return c
}

func anyZeroHeight(c *Case) bool {
	for _, id := range NodeIDs(c.Edges) {
		if c.ConfiguredSize(id).H == 0 {
			return true
		}
	}
	return false
}

func checkC06(c *Case) *Outcome {
	o := &Outcome{}
	structuralClasses(c, o)
	optionClasses(c, o)
	o.classIf(c.Virt, "virt")
	l, perr := c.Run()
	if perr != nil {
		return o.failf("Layout panicked: %v", perr)
	}
	v := NewView(c, l)
	if !v.AllReturned() {
		return o.failf("not all input nodes were returned (see C02)")
	}
	heights := map[float64]bool{}
	for _, h := range v.BandH {
		heights[h] = true
	}
	maxSpan := 0
	var bendX []float64
	// collapsed bands: LayerSpacing 0 and zero-height nodes - different layers may share a Y, spans cannot be read off
	collapsed := c.Rt == RtPolyline && c.LayerSpacing() == 0 && anyZeroHeight(c)
	o.classIf(collapsed, "collapsed_bands")
	for _, e := range l.Edges {
		if e.FromID == e.ToID {
			continue
		}
		span := v.Band[e.FromID] - v.Band[e.ToID]
		if span < 0 {
			span = -span
		}
		maxSpan = max(maxSpan, span)
		switch c.Rt {
		case RtStraight:
			if len(e.Points) != 2 {
				return o.failf("straight route of %q->%q has %d points", e.FromID, e.ToID, len(e.Points))
			}
		case RtPolyline:
			if !collapsed && span >= 1 && len(e.Points) != span+1 {
				return o.failf("polyline route of %q->%q spans %d bands but has %d points (want one bend per intermediate band)", e.FromID, e.ToID, span, len(e.Points))
			}
			for i := 1; i < len(e.Points); i++ {
				if e.Points[i][1] < e.Points[i-1][1]-1e-9*(tolUnit()+math.Abs(e.Points[i][1])) {
					return o.failf("polyline route of %q->%q goes upward: %v then %v", e.FromID, e.ToID, e.Points[i-1], e.Points[i])
				}
			}
			for i := 1; i < len(e.Points)-1; i++ {
				p := e.Points[i]
				bendX = append(bendX, p[0])
				for _, n := range l.Nodes {
					t := 1e-9 * (tolUnit() + math.Abs(p[0]) + math.Abs(p[1]) + n.W + n.H)
					if p[0] > n.X+t && p[0] < n.X+n.W-t && p[1] > n.Y+t && p[1] < n.Y+n.H-t {
						return o.failf("bend %v of %q->%q lies strictly inside node %q %+v", p, e.FromID, e.ToID, n.ID, n.Size)
					}
				}
			}
		case RtOrtho:
			if len(e.Points) < 2 {
				return o.failf("orthogonal route of %q->%q has %d points", e.FromID, e.ToID, len(e.Points))
			}
			for i := 1; i < len(e.Points); i++ {
				a, b := e.Points[i-1], e.Points[i]
				if !near(a[0], b[0]) && !near(a[1], b[1]) {
					return o.failf("orthogonal route of %q->%q has a slanted segment %v - %v", e.FromID, e.ToID, a, b)
				}
			}
		case RtSplines:
			if len(e.Points) == 0 || len(e.Points)%4 != 0 {
				return o.failf("spline route of %q->%q has %d control points (want 4k > 0)", e.FromID, e.ToID, len(e.Points))
			}
			for i := 4; i < len(e.Points); i += 4 {
				if e.Points[i] != e.Points[i-1] {
					return o.failf("spline pieces of %q->%q do not join: %v then %v", e.FromID, e.ToID, e.Points[i-1], e.Points[i])
				}
			}
		}
	}
	if c.Rt == RtPolyline && c.Virt {
		var helperX []float64
		for _, n := range v.Extra {
			helperX = append(helperX, n.X+n.W/2)
		}
		a, b := sortedFloats(bendX), sortedFloats(helperX)
		if len(a) != len(b) {
			return o.failf("%d polyline bends but %d helper nodes in the output", len(a), len(b))
		}
		for i := range a {
			if !near(a[i], b[i]) {
				return o.failf("bend x-values %v do not match helper-node x-values %v", a, b)
			}
		}
	}
	o.classIf(maxSpan >= 3, "span>=3")
	o.classIf(c.LayerSpacing() == 0, "layer_spacing=0")
	o.NonTrivial = maxSpan >= 3 && len(heights) >= 2
	return o
}

func TestC06(t *testing.T) { runGenerated(t, propC06) }
