package verifh

import (
	"fmt"
	"strconv"
	"testing"

	"github.com/nulab/autog/graph"
	"pgregory.net/rapid"
)

// C01 — Layout always returns: no panic, process abort, hang or runaway memory.
// Oracle: the call returns (a recovered panic is a failure; stack overflow / OOM / hang kill the worker and are
// picked up by the driver from the journal), and every returned number is finite.

var propC01 = register(&Property{
	ID: "C01",
	Rule: "full graph-family x option grid (splines only inside the spline-safe domain D_S, known finding K3); " +
		"non-trivial = >=3 edges and at least one of {directed cycle, parallel/antiparallel pair, self-loop, >=2 components, " +
		"an edge spanning >1 band}; distinct = distinct canonical JSON of (edges, options)",
	New:   func() any { return &Case{} },
	Gen:   func(rt *rapid.T, s *Stats) any { return genC01(rt, s) },
	Check: func(c any) *Outcome { return checkC01(c.(*Case)) },
})

func genC01(rt *rapid.T, st *Stats) *Case {
	maxN, maxM, regime := regimeForTier(rt)
	n, ies, _ := genGraph(rt, GraphSpec{MaxN: maxN, MaxM: maxM, Families: allFam, Union: true, SelfLoops: true, Parallel: true})
	ids := genIDs(rt, n, chance(rt, "adversarial_ids", 1, 4))
	c := &Case{Edges: toEdges(ies, func(i int) string { return ids[i] })}
	_ = regime
	poss := posFor(n, len(ies), allPos)
	genOptions(rt, c, NodeIDs(c.Edges), OptSpec{CBs: allCB, Lays: allLay, Poss: poss, BKForced: true, Rts: allRt,
		Thorough: true, Virt: true, Sizes: 0, NSZero: true, LSZero: true, DefaultsOK: true})
	if c.Rt == RtSplines && !inSplineSafeDomain(c) {
		// known finding K3: excluded by construction (and counted); the case is moved into D_S
		st.exclude("K3-splines-outside-safe-domain")
		forceSplineSafe(rt, c, n > 24)
	}
	return c
}

// regimeForTier: quick keeps medium/large graphs rare (a large dense case costs up to seconds), thorough uses DESIGN.md's 85/13/2
func regimeForTier(rt *rapid.T) (int, int, string) {
	if thorough() {
		return sizeRegime(rt, 850, 130, 20)
	}
	return sizeRegime(rt, 960, 38, 2)
}

// forceSplineSafe rewrites sizes/spacings/positioner of c so that it lies in D_S.
func forceSplineSafe(rt *rapid.T, c *Case, _ bool) {
	nn, mm := len(NodeIDs(c.Edges)), len(c.Edges)
	big := !((nn <= 16 && mm <= 24) || (nn <= 48 && mm <= nn+3)) // same bound as posFor
	w, h := genDim(rt, "ds_w", false), genDim(rt, "ds_h", false)
	c.SzMode = SzFixed
	c.Fixed = Sz{w, h}
	c.Sizes = nil
	if c.NodeSpacing() <= 0 {
		c.NS = ptr(genDim(rt, "ds_ns", false))
	}
	if c.LayerSpacing() <= 0 {
		c.LS = ptr(genDim(rt, "ds_ls", false))
	}
	if c.Pos == PosBK {
		c.BK = nil
		if big {
			c.Pos = pick(rt, "ds_pos", 3)
		} else {
			c.Pos = pick(rt, "ds_pos", 4)
		}
	}
	if c.Pos == PosNS {
		// integer grid: integer widths and an integer NodeSpacing >= 1
		c.Fixed.W = intDims[rapid.IntRange(1, len(intDims)-1).Draw(rt, "ds_w_int")]
		c.NS = ptr(intDims[rapid.IntRange(1, len(intDims)-1).Draw(rt, "ds_ns_int")])
	}
}

func layoutFinite(l graph.Layout) error {
	for _, n := range l.Nodes {
		if !finite(n.X) || !finite(n.Y) || !finite(n.W) || !finite(n.H) {
			return fmt.Errorf("node %q has a non-finite coordinate: %+v", n.ID, n.Size)
		}
	}
	for _, e := range l.Edges {
		for _, p := range e.Points {
			if !finite(p[0]) || !finite(p[1]) {
				return fmt.Errorf("edge %q->%q has a non-finite route point %v", e.FromID, e.ToID, p)
			}
		}
	}
	return nil
}

func structuralClasses(c *Case, o *Outcome) (cyclic, par, loops bool, ncomp int) {
	cyclic = !IsAcyclic(c.Edges)
	par = HasParallel(c.Edges)
	loops = CountSelfLoops(c.Edges) > 0
	_, ncomp = Components(c.Edges)
	o.classIf(cyclic, "cyclic")
	o.classIf(par, "parallel_or_antiparallel")
	o.classIf(loops, "self_loop")
	o.classIf(ncomp >= 2, "components>=2")
	n := len(NodeIDs(c.Edges))
	switch {
	case n <= 10:
		o.class("nodes<=10")
	case n <= 24:
		o.class("nodes<=24")
	default:
		o.class("nodes>24")
	}
	return
}

func optionClasses(c *Case, o *Outcome) {
	o.class("cb=" + []string{"greedy", "greedy-random", "dfs"}[c.CB])
	o.class("lay=" + []string{"ns", "longestpath"}[c.Lay])
	o.class("pos=" + []string{"sink", "valign", "packright", "ns", "bk"}[c.Pos])
	o.class("rt=" + []string{"polyline", "straight", "ortho", "splines", "noop"}[c.Rt])
	if u := c.unit(); u > 0 && u < 1.0/128 {
		o.class("unit<2^-7")
	} else if u > 1<<21 {
		o.class("unit>2^21")
	}
}

func hasLongEdge(c *Case, l graph.Layout) bool {
	if !bandsUsable(c) {
		return false
	}
	v := NewView(c, l)
	if !v.AllReturned() {
		return false
	}
	for _, e := range l.Edges {
		d := v.Band[e.FromID] - v.Band[e.ToID]
		if d > 1 || d < -1 {
			return true
		}
	}
	return false
}

func checkC01(c *Case) *Outcome {
	o := &Outcome{}
	cyclic, par, loops, ncomp := structuralClasses(c, o)
	optionClasses(c, o)
	l, perr := c.Run()
	if perr != nil {
		return o.failf("Layout panicked: %v", perr)
	}
	if err := layoutFinite(l); err != nil {
		return o.failf("%v", err)
	}
	long := hasLongEdge(c, l)
	o.classIf(long, "long_edge")
	o.NonTrivial = len(c.Edges) >= 3 && (cyclic || par || loops || ncomp >= 2 || long)
	return o
}

func TestC01(t *testing.T) { runGenerated(t, propC01) }

// TestC01Exhaustive: every ordered edge list of length 1..M over N nodes (self-loops, parallel and antiparallel edges
// included) x the complete algorithm grid 3 cycle breakers x 2 layerers x 5 positioners x 5 routers, with uniform 40x20
// nodes and positive spacings (inside D_S, so splines are included). N, M from VERIF_C01_NODES / VERIF_C01_EDGES.
func TestC01Exhaustive(t *testing.T) {
	startWatchdog()
	N, _ := strconv.Atoi(getenv("VERIF_C01_NODES", "3"))
	M, _ := strconv.Atoi(getenv("VERIF_C01_EDGES", "3"))
	nsh, _ := strconv.Atoi(getenv("VERIF_NSHARDS", "1"))
	st := newStats("C01", propC01.Rule)
	complete := false
	defer func() { st.write(complete) }()
	var pairs []iedge
	for a := 0; a < N; a++ {
		for b := 0; b < N; b++ {
			pairs = append(pairs, iedge{a, b})
		}
	}
	idx, lists := 0, 0
	var rec func(es []iedge)
	rec = func(es []iedge) {
		if len(es) >= 1 {
			idx++
			lists++
			if idx%nsh == cfg.Shard {
				for _, cb := range allCB {
					for _, lay := range allLay {
						for _, pos := range allPos {
							for _, rt := range allRt {
								if rt == RtSplines && pos == PosBK {
									continue // outside D_S (known finding K3)
								}
								c := &Case{Edges: toEdges(es, nid), CB: cb, GreedySeed: int64(idx), Lay: lay, Pos: pos, Rt: rt, SzMode: SzFixed, Fixed: Sz{40, 20}, NS: ptr(10.0), LS: ptr(30.0)}
								o := runCase(propC01, c, st)
								if o.Err != nil {
									writeFailCase("C01", c, o.Err)
									t.Fatalf("property C01 violated (exhaustive enumeration): %v\ncase: %s", o.Err, mustRaw(c))
								}
							}
						}
					}
				}
			}
		}
		if len(es) == M {
			return
		}
		for _, p := range pairs {
			rec(append(es, p))
		}
	}
	rec(nil)
	complete = true
	st.Extra["exhaustive_c01"] = fmt.Sprintf("all ordered edge lists of length 1..%d over %d nodes (%d lists) x 3 cycle breakers x 2 layerers x 5 positioners x 5 routers (splines with Brandes-Koepf excluded: K3), uniform 40x20 nodes", M, N, lists)
}
