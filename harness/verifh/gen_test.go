package verifh

import (
	"fmt"
	"math"
	"os"
	"sort"
	"strings"
	"testing"

	"pgregory.net/rapid"
)

// All generators draw through rapid only (no private RNG, no clock, no map order).

func pick(rt *rapid.T, label string, n int) int { return rapid.IntRange(0, n-1).Draw(rt, label) }

// chance returns true with probability ~ num/den (a rapid draw, so it shrinks towards false)
func chance(rt *rapid.T, label string, num, den int) bool {
	return rapid.IntRange(0, den-1).Draw(rt, label) >= den-num
}

func nid(i int) string { return fmt.Sprintf("n%d", i) }

// nameScheme draws how node indices become ID strings: n<i> (default), bare decimals of mixed length ("7", "12": string
// concatenations and lexicographic comparisons of such IDs collide / reorder - seeded/r2-m14, r2-m08), letters, or names with a
// long common prefix / a common suffix.
// None of the schemes can produce a helper-like ID (V<k>, NE<i>).
func nameScheme(rt *rapid.T) func(int) string {
	switch pick(rt, "id_scheme", 8) {
	case 7:
		// names composed of tokens and a separator (see composedNames): different ID pairs whose joined forms coincide
		pool := composedNames(rt)
		return func(i int) string {
			if i < len(pool) {
				return pool[i]
			}
			return fmt.Sprintf("c%d", i)
		}
	case 0, 1, 2:
		return nid
	case 3:
		return func(i int) string { return fmt.Sprint(i) }
	case 5:
		// a long common prefix (qualified names) - IDs that differ only in their last characters
		return func(i int) string { return fmt.Sprintf("com.example.service.module.Component$Inner_%d", i) }
	case 6:
		// a common suffix, zero-padded and not: "7.node" / "007.node" style names differ in length, not in the tail
		return func(i int) string {
			if i%2 == 0 {
				return fmt.Sprintf("%d.node", i)
			}
			return fmt.Sprintf("%03d.node", i)
		}
	default:
		return func(i int) string {
			s := ""
			for i++; i > 0; i = (i - 1) / 26 {
				s = string(rune('a'+(i-1)%26)) + s
			}
			return s
		}
	}
}

// composedSeps: separators a map key, a log line or a debug string could join two IDs with. The first entries are the
// library's own spelling of an edge (graph.Edge.String: From.ID + " -> " + To.ID, optionally followed by " (rev)") and are
// drawn half of the time; the rest are the usual suspects, the empty separator (plain concatenation) included.
var composedSeps = []string{" -> ", " -> ", "->", " -> ", "-", ":", ",", "/", "|", " ", "_", ".", "\t", "\n", "\x00", "=>", "--", "", "#", ";"}

// composedNames returns a shuffled pool of distinct names: all joins of one to three tokens from a tiny alphabet with
// one drawn separator. With such names distinct ID pairs have equal joined forms - ("a", "b<sep>a") and ("a<sep>b", "a")
// both read "a<sep>b<sep>a" - which is exactly what an identifier-derived key (instead of the node itself) confuses.
// Seeded change r6-m08 keyed the two-node-cycle map by the edge's string form; fixed lists of odd names never collide.
func composedNames(rt *rapid.T) []string {
	sep := composedSeps[pick(rt, "name_sep", len(composedSeps))]
	toks := [][]string{{"a", "b"}, {"a", "b", ""}, {"x", "y", "z"}, {"1", "2", "12"}, {"a", "a (rev)", ""}}[pick(rt, "name_tokens", 5)]
	seen := map[string]bool{}
	var pool []string
	add := func(s string) {
		if !seen[s] {
			seen[s] = true
			pool = append(pool, s)
		}
	}
	for _, a := range toks {
		add(a)
		for _, b := range toks {
			add(a + sep + b)
			for _, c := range toks {
				add(a + sep + b + sep + c)
			}
		}
	}
	return rapid.Permutation(pool).Draw(rt, "name_pool_order")
}

// ---------------------------------------------------------------------------------------------------------
// Graph families. Each returns edges over node indices; IDs are attached afterwards.

type iedge = [2]int

const (
	FamMulti = iota
	FamSimple
	FamDag
	FamConn
	FamTree
	FamLadder
	FamMotif
	numFam
)

var famNames = []string{"multi", "simple", "dag", "conn", "tree", "ladder", "motif"}

type GraphSpec struct {
	MaxN, MaxM int
	Families   []int // allowed families
	Union      bool  // allow disjoint unions of 2..4 parts
	SelfLoops  bool  // allow self-loops (in families that have them)
	Parallel   bool  // allow parallel / antiparallel edges
	NoGiant    bool  // never make a part a thin giant (genThinGiant)
}

// genIEdges draws one connected-or-not graph of a family on nodes 0..n-1 (n is chosen inside and returned).
func genFamily(rt *rapid.T, fam int, sp GraphSpec) (n int, es []iedge) {
	maxN, maxM := max(sp.MaxN, 2), max(sp.MaxM, 1)
	switch fam {
	case FamMulti:
		n = rapid.IntRange(1, maxN).Draw(rt, "n")
		m := capDensity(n, rapid.IntRange(1, maxM).Draw(rt, "m"))
		for i := 0; i < m; i++ {
			// uniform endpoints would over-represent self-loops on small n: a self-loop is a separate 1-in-8 choice
			a := pick(rt, "a", n)
			switch {
			case sp.SelfLoops && (n == 1 || chance(rt, "selfloop", 1, 8)):
				es = append(es, iedge{a, a})
			case n > 1:
				es = append(es, iedge{a, (a + 1 + pick(rt, "b", n-1)) % n})
			}
		}
		if !sp.Parallel {
			es = dedupe(es)
		}
	case FamSimple:
		n = rapid.IntRange(2, maxN).Draw(rt, "n")
		m := capDensity(n, rapid.IntRange(1, maxM).Draw(rt, "m"))
		for i := 0; i < m; i++ {
			a := pick(rt, "a", n)
			b := (a + 1 + pick(rt, "b", n-1)) % n
			es = append(es, iedge{a, b})
		}
		es = dedupe(es)
	case FamDag:
		n = rapid.IntRange(2, maxN).Draw(rt, "n")
		m := capDensity(n, rapid.IntRange(1, maxM).Draw(rt, "m"))
		// hidden topological order: a drawn permutation, so that the acyclic order is not the ID order
		perm := rapid.Permutation(iota_(n)).Draw(rt, "topo")
		for i := 0; i < m; i++ {
			a := pick(rt, "a", n)
			b := (a + 1 + pick(rt, "b", n-1)) % n
			if a > b {
				a, b = b, a
			}
			es = append(es, iedge{perm[a], perm[b]})
		}
		if !sp.Parallel {
			es = dedupe(es)
		}
	case FamConn:
		n = rapid.IntRange(2, maxN).Draw(rt, "n")
		for i := 1; i < n; i++ {
			p := pick(rt, "parent", i)
			if rapid.Bool().Draw(rt, "flip") {
				es = append(es, iedge{i, p})
			} else {
				es = append(es, iedge{p, i})
			}
		}
		extra := rapid.IntRange(0, max(0, capDensity(n, maxM)-(n-1))).Draw(rt, "extra")
		for i := 0; i < extra; i++ {
			a := pick(rt, "a", n)
			b := (a + 1 + pick(rt, "b", n-1)) % n
			es = append(es, iedge{a, b})
		}
		if !sp.Parallel {
			es = dedupe(es)
		}
	case FamTree:
		n = rapid.IntRange(2, maxN).Draw(rt, "n")
		in := rapid.Bool().Draw(rt, "intree")
		for i := 1; i < n; i++ {
			p := pick(rt, "parent", i)
			if in {
				es = append(es, iedge{i, p})
			} else {
				es = append(es, iedge{p, i})
			}
		}
	case FamLadder:
		// L layers x W columns, rungs between consecutive layers, a few long edges and back edges
		maxL := max(2, min(12, maxN/2))
		L := rapid.IntRange(2, maxL).Draw(rt, "L")
		W := rapid.IntRange(1, max(1, min(6, maxN/L))).Draw(rt, "W")
		n = L * W
		id := func(l, w int) int { return l*W + w }
		for l := 0; l+1 < L; l++ {
			for w := 0; w < W; w++ {
				es = append(es, iedge{id(l, w), id(l+1, pick(rt, "rung", W))})
			}
		}
		k := rapid.IntRange(0, max(0, min(maxM-len(es), L))).Draw(rt, "long")
		for i := 0; i < k; i++ {
			a := pick(rt, "la", n)
			b := (a + 1 + pick(rt, "lb", n-1)) % n
			es = append(es, iedge{a, b})
		}
		if !sp.Parallel {
			es = dedupe(es)
		}
	case FamMotif:
		n, es = genMotif(rt, sp)
	default:
		panic("unknown family")
	}
	if len(es) == 0 {
		if n < 2 {
			n = 2
		}
		es = []iedge{{0, 1}}
	}
	return n, es
}

// capDensity bounds the number of edges of graphs with more than 10 nodes to 3 per node: very dense multigraphs with
// dozens of nodes cost seconds per layout (122 edges on 12 nodes: 6 s) without adding structure the small dense cases lack.
func capDensity(n, m int) int {
	if n > 24 {
		// beyond two dozen nodes at most 2 edges per node: 37 nodes / 111 edges with longest-path layering cost 12 s per
		// layout (thousands of helper nodes), which under a loaded machine and 5 repetitions (C07) ran into the watchdog
		return min(m, 2*n+4)
	}
	if n > 10 || m > 40 {
		return min(m, 3*n+4)
	}
	return m
}

func genMotif(rt *rapid.T, sp GraphSpec) (int, []iedge) {
	which := pick(rt, "motif", 9)
	if which == 8 {
		if sp.Parallel {
			return genBundle(rt, sp)
		}
		which = 7
	}
	switch which {
	case 0: // one node with k consecutive out-edges to "earlier" nodes of a cycle (greedy reversal while ranging, F1)
		k := rapid.IntRange(2, 5).Draw(rt, "k")
		var es []iedge
		for i := 0; i < k; i++ {
			es = append(es, iedge{i, i + 1})
		}
		for i := 0; i < k; i++ {
			es = append(es, iedge{k, i})
		}
		return k + 1, es
	case 1: // k parallel copies of one edge + tail
		k := rapid.IntRange(2, 4).Draw(rt, "k")
		var es []iedge
		for i := 0; i < k; i++ {
			es = append(es, iedge{0, 1})
		}
		es = append(es, iedge{1, 2})
		if !sp.Parallel {
			return 3, dedupe(es)
		}
		return 3, es
	case 2: // A->B, B->A, A->B
		es := []iedge{{0, 1}, {1, 0}, {0, 1}, {1, 2}}
		if !sp.Parallel {
			return 3, []iedge{{0, 1}, {1, 2}, {2, 0}}
		}
		return 3, es
	case 3: // diamond with a long chord
		d := rapid.IntRange(2, 5).Draw(rt, "depth")
		var es []iedge
		// path 0..d and chord 0->d, second path
		for i := 0; i < d; i++ {
			es = append(es, iedge{i, i + 1})
		}
		es = append(es, iedge{0, d})
		es = append(es, iedge{0, d + 1}, iedge{d + 1, d})
		return d + 2, es
	case 4: // K(a,b)
		a := rapid.IntRange(1, 4).Draw(rt, "ka")
		b := rapid.IntRange(1, 4).Draw(rt, "kb")
		var es []iedge
		for i := 0; i < a; i++ {
			for j := 0; j < b; j++ {
				es = append(es, iedge{i, a + j})
			}
		}
		return a + b, es
	case 5: // >= 2 self-loops on one node and on different nodes
		es := []iedge{{0, 1}, {1, 2}}
		if sp.SelfLoops {
			es = append(es, iedge{0, 0}, iedge{0, 0}, iedge{2, 2})
		} else {
			es = append(es, iedge{2, 0})
		}
		return 3, es
	case 6: // directed cycle of length k with chords
		k := rapid.IntRange(3, 7).Draw(rt, "k")
		var es []iedge
		for i := 0; i < k; i++ {
			es = append(es, iedge{i, (i + 1) % k})
		}
		c := rapid.IntRange(0, 3).Draw(rt, "chords")
		for i := 0; i < c; i++ {
			a := pick(rt, "ca", k)
			b := (a + 2 + pick(rt, "cb", k-2)) % k
			if a != b {
				es = append(es, iedge{a, b})
			}
		}
		if !sp.Parallel {
			es = dedupe(es)
		}
		return k, es
	default: // two sources feeding a chain with slack ties (ties in incidentNonTreeEdge)
		es := []iedge{{0, 2}, {1, 2}, {2, 3}, {0, 3}, {1, 3}, {3, 4}, {0, 4}}
		return 5, es
	}
}

// genBundle: a small random DAG or multigraph skeleton in which ONE edge becomes a bundle of k parallel copies; in a
// third of the cases k is beyond 256 (byte-sized counters, degree-packed sort keys: seeded/r2-m11 needs a non-source
// node with >= 257 out-edges next to another source). Cheap: few nodes, many identical edges.
func genBundle(rt *rapid.T, sp GraphSpec) (int, []iedge) {
	huge := sp.MaxM >= 16 && chance(rt, "bundle_huge", 1, 3) // never under a spec that asks for tiny graphs
	fam := FamDag
	if !huge && rapid.Bool().Draw(rt, "bundle_cyclic") {
		fam = FamConn
	}
	n, es := genFamily(rt, fam, GraphSpec{MaxN: 6, MaxM: 8, SelfLoops: false, Parallel: true})
	k := rapid.IntRange(2, 6).Draw(rt, "bundle_k")
	at := pick(rt, "bundle_edge", len(es))
	if huge {
		// A bundle of 250+ copies must stay a SHORT edge: as a long edge it puts 250+ helper nodes into every band it
		// crosses and the ordering phase then needs minutes (measured; a cost cliff, not a hang). In an acyclic skeleton an
		// edge u->v is short under both layerers when v is u's ONLY successor (longest path: height(u) = height(v)+1;
		// network simplex: the heavy bundle is tight in every optimum), so only such edges qualify. (A first version only
		// required "no other path from u to v", which is not enough under longest-path layering: 283 copies as a long edge
		// killed a thorough shard.)
		var ok []int
		for i, e := range es {
			only := true
			for _, f := range es {
				if f[0] == e[0] && f[1] != e[1] {
					only = false
				}
			}
			if only && !reachableWithout(es, i, e[0], e[1]) {
				ok = append(ok, i)
			}
		}
		if len(ok) > 0 {
			at = ok[pick(rt, "bundle_short_edge", len(ok))]
			k = rapid.IntRange(250, 300).Draw(rt, "bundle_k_huge")
		}
	}
	e := es[at]
	for i := 1; i < k; i++ {
		es = append(es, e)
	}
	return n, es
}

// reachableWithout: is `to` reachable from `from` in es without using any copy of edge number skip?
func reachableWithout(es []iedge, skip, from, to int) bool {
	seen := map[int]bool{from: true}
	stack := []int{from}
	for len(stack) > 0 {
		u := stack[len(stack)-1]
		stack = stack[:len(stack)-1]
		for _, e := range es {
			if e == es[skip] || e[0] != u || seen[e[1]] {
				continue
			}
			if e[1] == to {
				return true
			}
			seen[e[1]] = true
			stack = append(stack, e[1])
		}
	}
	return false
}

func iota_(n int) []int {
	s := make([]int, n)
	for i := range s {
		s[i] = i
	}
	return s
}

// dedupe removes edges on an already used unordered pair (keeps self-loops once per node)
func dedupe(es []iedge) []iedge {
	seen := map[iedge]bool{}
	out := es[:0:0]
	for _, e := range es {
		k := e
		if k[0] > k[1] {
			k = iedge{k[1], k[0]}
		}
		if seen[k] {
			continue
		}
		seen[k] = true
		out = append(out, e)
	}
	return out
}

// genThinGiant draws a connected "fishbone" with n nodes: a forward spine, leaves that point INTO the spine, and a few
// forward chords that skip one or two spine nodes. Hundreds of nodes, edges and layers for the price of a small graph:
// every layer has one to a handful of nodes and no edge is longer than three layers under either layering (leaves
// pointing into the spine sit one layer above their target with longest-path layering too; leaves pointing away from
// it would all sink to the bottom layer and cost minutes in helper nodes - measured: 8 s at 210 nodes, 2.5 min at 520).
// Measured on the unchanged tree: <= 30 ms at 330 nodes and <= 0.25 s at 1100 nodes for every positioner but
// NetworkSimplex (0.4 s at 210 nodes, 1.4 s at 330). This is how count thresholds inside the code (components with
// more than 128/200/256/512/1000 nodes, layers beyond 64 ...) are crossed: seeded/r6-m09 switches behaviour for
// components with more than 200 nodes.
func genThinGiant(rt *rapid.T, n int) []iedge {
	var es []iedge
	spine := []int{0}
	for next := 1; next < n; {
		cur := spine[len(spine)-1]
		switch k := pick(rt, "giant_step", 10); {
		case k < 6:
			es = append(es, iedge{cur, next})
			spine = append(spine, next)
			next++
		case k < 9:
			es = append(es, iedge{next, cur})
			next++
		default:
			if len(spine) > 3 {
				es = append(es, iedge{spine[len(spine)-3-pick(rt, "giant_chord", 2)], cur}) // may repeat: a parallel edge
			}
		}
	}
	return es
}

// genRegularGiant draws a giant with a REGULAR structure in a systematic edge order - what programmatically produced
// input looks like and a random fishbone never is: a path; a fishbone in which every spine node has exactly one or two
// leaves pointing into it, the leaf edges listed before or after the spine edge that enters the node; a two-rail
// ladder; a spine with a chord every few nodes. Iteration counts inside the code that grow with the length of such a
// regular run (seeded/r6-m04 caps SinkColoring's align/shift rounds at 256: only a fishbone with >= 259 teeth, leaf
// edge first, needs more) are out of reach of random structure.
func genRegularGiant(rt *rapid.T, n int) ([]iedge, string) {
	var es []iedge
	switch pick(rt, "giant_shape", 6) {
	case 5:
		// not thin at all: a random recursive tree on 60..120 nodes (random orientations) plus a few extra edges - the
		// shape of the small random graphs at ten times their size (seeded/r6-m03: 1 in 60 000 below 30 nodes, 1 in 400 here)
		n = rapid.IntRange(60, 120).Draw(rt, "big_random_n")
		for i := 1; i < n; i++ {
			p := pick(rt, "parent", i)
			if chance(rt, "flip", 1, 3) {
				es = append(es, iedge{i, p})
			} else {
				es = append(es, iedge{p, i})
			}
		}
		for k := rapid.IntRange(0, n/8).Draw(rt, "extra"); k > 0; k-- {
			a := pick(rt, "a", n)
			es = append(es, iedge{a, (a + 1 + pick(rt, "b", n-1)) % n})
		}
		return es, "big-random"
	case 0:
		for i := 0; i+1 < n; i++ {
			es = append(es, iedge{i, i + 1})
		}
		return es, "giant-path"
	case 1, 2:
		legs := rapid.IntRange(1, 2).Draw(rt, "giant_legs")
		legFirst := rapid.Bool().Draw(rt, "giant_leg_first")
		next, prev := 0, -1
		for next+legs < n {
			s := next
			next++
			if prev >= 0 && !legFirst {
				es = append(es, iedge{prev, s})
			}
			for k := 0; k < legs; k++ {
				es = append(es, iedge{next, s})
				next++
			}
			if prev >= 0 && legFirst {
				es = append(es, iedge{prev, s})
			}
			prev = s
		}
		return es, "giant-fishbone"
	case 3:
		// (shapes with a cycle per rung cost the network-simplex layerer a pivot each: 80 s at 1100 nodes, so <= 330)
		n = min(n, 330)
		// two rails a_i = 2i, b_i = 2i+1 with rungs a_i -> b_(i+1), sometimes also b_i -> a_(i+1)
		cross := rapid.Bool().Draw(rt, "giant_cross")
		for i := 0; 2*i+3 < n; i++ {
			es = append(es, iedge{2 * i, 2*i + 2}, iedge{2*i + 1, 2*i + 3}, iedge{2 * i, 2*i + 3})
			if cross {
				es = append(es, iedge{2*i + 1, 2*i + 2})
			}
		}
		return es, "giant-ladder"
	default:
		n = min(n, 330)
		every := rapid.IntRange(2, 5).Draw(rt, "giant_every")
		for i := 0; i+1 < n; i++ {
			es = append(es, iedge{i, i + 1})
			if i%every == 0 && i+3 < n {
				es = append(es, iedge{i, i + 3})
			}
		}
		return es, "giant-chords"
	}
}

func giantRegime() bool { return os.Getenv("VERIF_REGIME") == "giant" }

func giantSize(rt *rapid.T) int {
	if giantRegime() {
		if rapid.Bool().Draw(rt, "giant_huge") {
			return rapid.IntRange(500, 1100).Draw(rt, "giant_n")
		}
		return rapid.IntRange(130, 330).Draw(rt, "giant_n")
	}
	if chance(rt, "giant_huge", 1, 5) {
		return rapid.IntRange(500, 1100).Draw(rt, "giant_n")
	}
	return rapid.IntRange(130, 330).Draw(rt, "giant_n")
}

// genGraph draws a graph according to sp: a single family member or a disjoint union, with a drawn edge order,
// and returns it over node indices 0..n-1 together with the family label(s).
func genGraph(rt *rapid.T, sp GraphSpec) (n int, es []iedge, label string) {
	parts := 1
	if sp.Union && chance(rt, "union", 1, 4) {
		parts = rapid.IntRange(2, 4).Draw(rt, "parts")
	}
	if giantRegime() && parts > 1 {
		sp.MaxN, sp.MaxM = min(sp.MaxN, 6*parts), min(sp.MaxM, 8*parts) // the giant's companions stay small
	}
	var labels []string
	giant := -1
	godds := 250
	if thorough() {
		godds = 100
	}
	if v := int(envFloat("VERIF_GIANT_ODDS", 0)); v > 0 {
		godds = v // development aid: measure what the giants alone find
	}
	if giantRegime() {
		godds = 1 // the Test*Giant runs: every case has a giant part, regular or random
	}
	if !sp.NoGiant && chance(rt, "giant", 1, godds) {
		giant = pick(rt, "giant_part", parts)
	}
	for p := 0; p < parts; p++ {
		if p == giant {
			gn := giantSize(rt)
			var ges []iedge
			glabel := "giant"
			if chance(rt, "giant_regular", 1, 2) {
				ges, glabel = genRegularGiant(rt, gn)
				gn = 0
				for _, e := range ges {
					gn = max(gn, e[0]+1, e[1]+1)
				}
			} else {
				ges = genThinGiant(rt, gn)
			}
			if !sp.Parallel {
				ges = dedupe(ges)
			}
			for _, e := range ges {
				es = append(es, iedge{e[0] + n, e[1] + n})
			}
			n += gn
			labels = append(labels, glabel)
			continue
		}
		fam := sp.Families[pick(rt, "family", len(sp.Families))]
		psp := sp
		if parts > 1 {
			psp.MaxN = max(2, sp.MaxN/parts+1)
			psp.MaxM = max(1, sp.MaxM/parts+1)
		}
		var pn int
		var pes []iedge
		if parts > 1 && sp.SelfLoops && chance(rt, "loner", 1, 8) {
			pn, pes = 1, []iedge{{0, 0}} // a single self-looped node as a component
			labels = append(labels, "loner")
		} else {
			pn, pes = genFamily(rt, fam, psp)
			labels = append(labels, famNames[fam])
		}
		for _, e := range pes {
			es = append(es, iedge{e[0] + n, e[1] + n})
		}
		n += pn
	}
	// relabel nodes by a drawn permutation (so that node index order carries no structure) and shuffle edges
	if chance(rt, "relabel", 3, 4) {
		perm := rapid.Permutation(iota_(n)).Draw(rt, "relabel_perm")
		for i := range es {
			es[i] = iedge{perm[es[i][0]], perm[es[i][1]]}
		}
	}
	// edge order: mostly a drawn permutation; sometimes as generated (family order: parents before children, layer by
	// layer), and sometimes the orders real data comes in and a random permutation of more than five edges never
	// produces - sorted by (source, target), sorted by (target, source), or one of those reversed
	if len(es) > 1 {
		k := pick(rt, "edge_order_kind", 12)
		if giant >= 0 && chance(rt, "giant_as_generated", 1, 2) {
			k = 8 // regular structure mostly comes in a regular order
		}
		switch {
		case k < 8:
			es = rapid.Permutation(es).Draw(rt, "edge_order")
		case k < 10:
			// as generated
		default:
			byTarget, desc := k == 11, rapid.Bool().Draw(rt, "edge_order_desc")
			sort.SliceStable(es, func(i, j int) bool {
				a, b := es[i], es[j]
				if byTarget {
					a, b = iedge{a[1], a[0]}, iedge{b[1], b[0]}
				}
				if desc {
					a, b = b, a
				}
				return a[0] < b[0] || (a[0] == b[0] && a[1] < b[1])
			})
		}
	}
	return n, es, strings.Join(labels, "+")
}

func toEdges(es []iedge, name func(int) string) [][2]string {
	out := make([][2]string, len(es))
	for i, e := range es {
		out[i] = [2]string{name(e[0]), name(e[1])}
	}
	return out
}

// ---------------------------------------------------------------------------------------------------------
// Size regimes

// sizeRegime picks (maxN, maxM): 0 small, 1 medium, 2 large
func sizeRegime(rt *rapid.T, pSmall, pMedium, pLarge int) (int, int, string) {
	r := pick(rt, "regime", pSmall+pMedium+pLarge)
	switch {
	case r < pSmall:
		return 10, 16, "small"
	case r < pSmall+pMedium:
		return 24, 44, "medium"
	default:
		return 60, 120, "large"
	}
}

// ---------------------------------------------------------------------------------------------------------
// Adversarial identifiers

var advIDs = []string{"", "V1", "V2", "V3", "V4", "V5", "V6", "V7", "V8", "V9", "NE0", "NE1", "NE2", "NE3", "NE4", "NE5", "NE6", "NE7", "NE8", "NE9",
	"V", "NE", "V01", "v1", " ", "é", "日本", "N1", "N 1", "\t", "a\nb", "V10", "NE10", strings.Repeat("x", 300), strings.Repeat("V1", 150)}

// genIDs returns an injective naming of n nodes. mode 0: n<i>; mode 1: mixes adversarial names in.
func genIDs(rt *rapid.T, n int, adversarial bool) []string {
	ids := make([]string, n)
	used := map[string]bool{}
	for i := range ids {
		ids[i] = nid(i)
	}
	if !adversarial {
		return ids
	}
	if chance(rt, "composed_ids", 1, 4) {
		pool := composedNames(rt)
		for i := 0; i < n && i < len(pool); i++ {
			ids[i] = pool[i]
		}
		for _, id := range ids {
			if used[id] {
				panic("genIDs: not injective")
			}
			used[id] = true
		}
		return ids
	}
	// choose a subset of nodes that get adversarial names (distinct)
	order := rapid.Permutation(iota_(len(advIDs))).Draw(rt, "adv_order")
	k := rapid.IntRange(1, min(n, len(advIDs))).Draw(rt, "adv_count")
	who := rapid.Permutation(iota_(n)).Draw(rt, "adv_who")
	for j := 0; j < k; j++ {
		ids[who[j]] = advIDs[order[j]]
	}
	for _, id := range ids {
		if used[id] {
			panic("genIDs: not injective")
		}
		used[id] = true
	}
	return ids
}

// ---------------------------------------------------------------------------------------------------------
// Options

// dyadic: exactly representable values. The last three sit a hair (2^-10 .. 2^-7) above another value of the list:
// nearly-equal sizes are what absolute tolerances in the code under test confuse (seeded/r2-m17), and they keep C17 exact.
var dyadic = []float64{0, 0.5, 1, 1.5, 2, 3, 4, 5, 7.25, 8, 10, 12.5, 16, 20, 30, 40, 64, 100, 200, 8 + 1.0/1024, 40 + 1.0/256, 100 + 1.0/128}

var intDims = []float64{0, 1, 2, 3, 4, 5, 7, 8, 10, 13, 16, 20, 30, 40, 64, 100, 200}

// decimal: values whose sums and halves are NOT exactly representable in binary floating point. A seeded change
// (seeded/m01) showed that a dyadic-only grid hides comparisons that are only wrong by one ulp.
var decimal = []float64{0.1, 0.3, 1.1, 2.7, 12.7, 33.3, 40.2, 60.6, 120.3, 1e-3, 99.99, 1.0 / 3.0, 1e4, 12345.678}

// dyadicOnly is set by the one property whose oracle needs exact arithmetic (C17, power-of-two scaling)
var dyadicOnly = false

func genDim(rt *rapid.T, label string, allowZero bool) float64 {
	lo := 0
	if !allowZero {
		lo = 1
	}
	if !dyadicOnly && chance(rt, label+"_decimal", 1, 3) {
		return decimal[pick(rt, label+"_dec", len(decimal))]
	}
	return dyadic[rapid.IntRange(lo, len(dyadic)-1).Draw(rt, label)]
}

type OptSpec struct {
	NoUnits     bool // never rescale the case to units far from pixels
	CBs         []int
	Lays        []int
	Poss        []int // Pos*
	BKForced    bool  // allow forced / out-of-range BK layouts
	Rts         []int
	Thorough    bool // draw thoroughness
	ThoroughLow bool // additionally over-weight tiny iteration budgets (0..3)
	Virt        bool // draw Virt
	Sizes       int  // 0: any incl. none/zero; 1: all nodes sized, zero allowed; 2: positive sizes; 3: uniform positive
	IntSizes    bool // integer sizes and spacing for every positioner
	IntForNS    bool // integer sizes and spacing when the NetworkSimplex positioner is drawn (C04's quantifier)
	NSZero      bool // allow NodeSpacing 0
	LSZero      bool // allow LayerSpacing 0
	DefaultsOK  bool // allow "option not passed" for spacings
}

var thoroughVals = []uint{28, 1, 2, 1000, 0, 5}

func genOptions(rt *rapid.T, c *Case, ids []string, sp OptSpec) {
	c.CB = sp.CBs[pick(rt, "cb", len(sp.CBs))]
	if c.CB == CBGreedyRandom {
		c.GreedySeed = rapid.Int64Range(1, 1<<40).Draw(rt, "greedy_seed")
	}
	c.Lay = sp.Lays[pick(rt, "lay", len(sp.Lays))]
	c.Pos = sp.Poss[pick(rt, "pos", len(sp.Poss))]
	if c.Pos == PosBK && sp.BKForced {
		switch v := pick(rt, "bk", 9); {
		case v == 0:
			// option not passed
		case v <= 4:
			c.BK = ptr(v - 1)
		default:
			c.BK = ptr([]int{-1, 4, 7, -100}[v-5])
		}
	}
	c.Rt = sp.Rts[pick(rt, "rt", len(sp.Rts))]
	if sp.ThoroughLow && chance(rt, "thorough_low?", 1, 3) {
		// iteration budgets that are actually hit: the early-exit paths of the simplex (cap reached, state left half-way)
		// are where per-run state can leak into the next run (seeded/r3-m07)
		c.Thorough = ptr([]uint{1, 0, 2, 3}[pick(rt, "thorough_low", 4)])
	} else if sp.Thorough && chance(rt, "thorough?", 1, 3) {
		c.Thorough = ptr(thoroughVals[pick(rt, "thorough", len(thoroughVals))])
	}
	if sp.Virt {
		c.Virt = rapid.Bool().Draw(rt, "virt")
	}
	dim := func(label string, zero bool) float64 {
		if sp.IntSizes || (sp.IntForNS && c.Pos == PosNS) {
			lo := 0
			if !zero {
				lo = 1
			}
			return intDims[rapid.IntRange(lo, len(intDims)-1).Draw(rt, label+"_int")]
		}
		return genDim(rt, label, zero)
	}
	switch sp.Sizes {
	case 0:
		c.SzMode = pick(rt, "szmode", 4)
		if c.SzMode == SzFixed || c.SzMode == SzFixedPerNode {
			c.Fixed = Sz{dim("fw", true), dim("fh", true)}
		}
		if c.SzMode == SzPerNode || c.SzMode == SzFixedPerNode {
			c.Sizes = map[string]Sz{}
			cover := pick(rt, "cover", 4) // 0 all, 1 some, 2 none, 3 all + unknown ids
			for _, id := range ids {
				if cover == 0 || cover == 3 || (cover == 1 && rapid.Bool().Draw(rt, "listed")) {
					c.Sizes[id] = Sz{dim("w", true), dim("h", true)}
				}
			}
			if cover == 3 {
				c.Sizes["not-a-node"] = Sz{5, 5}
				addHelperNamedKeys(rt, c, dim)
			}
		}
	case 1, 2:
		c.SzMode = SzPerNode
		c.Sizes = map[string]Sz{}
		for _, id := range ids {
			c.Sizes[id] = Sz{dim("w", sp.Sizes == 1), dim("h", sp.Sizes == 1)}
		}
		addHelperNamedKeys(rt, c, dim)
	case 3:
		w, h := dim("uw", false), dim("uh", false)
		if rapid.Bool().Draw(rt, "uniform_fixed") {
			c.SzMode = SzFixed
			c.Fixed = Sz{w, h}
		} else {
			c.SzMode = SzPerNode
			c.Sizes = map[string]Sz{}
			for _, id := range ids {
				c.Sizes[id] = Sz{w, h}
			}
		}
	}
	if !(sp.DefaultsOK && chance(rt, "ns_default", 1, 6)) {
		c.NS = ptr(dim("ns", sp.NSZero))
	}
	if !(sp.DefaultsOK && chance(rt, "ls_default", 1, 6)) {
		c.LS = ptr(dim("ls", sp.LSZero))
	}
	// units far from pixels: every size and spacing of the case times 2^k, |k| in 8..30 (metres, normalised coordinates,
	// EMUs). Nothing in the properties depends on the unit; an absolute epsilon in the code under test does
	// (seeded/r6-m17, r4-m17, r2-m17 were all of that kind and only C17 looked). Not for the NetworkSimplex positioner
	// (integer grid) and the spline router (its fitter has documented absolute tolerances: C20). The oracles' own
	// tolerances follow the unit (tolUnit).
	if !dyadicOnly && !sp.NoUnits && c.Pos != PosNS && c.Rt != RtSplines && chance(rt, "units?", 1, 12) {
		k := rapid.IntRange(8, 30).Draw(rt, "unit_exp")
		if rapid.Bool().Draw(rt, "unit_tiny") {
			k = -k
		}
		f := math.Ldexp(1, k)
		c.NS, c.LS = ptr(c.NodeSpacing()*f), ptr(c.LayerSpacing()*f)
		c.Fixed = Sz{c.Fixed.W * f, c.Fixed.H * f}
		for id, v := range c.Sizes {
			c.Sizes[id] = Sz{v.W * f, v.H * f}
		}
	}
	// junk in the X/Y fields of the size map's values (Case.SizeMap): they are not part of a size
	if c.Sizes != nil && chance(rt, "size_xy?", 1, 6) {
		c.SizeXY = 1 + pick(rt, "size_xy", 2)
	}
	// how the configuration is spelled as an option list (Case.Options): 1 case in 5 is not canonical - defaults spelled
	// out, reverse order, or every explicit setting preceded by a decoy value that the later option overrides
	if chance(rt, "optstyle?", 1, 5) {
		c.OptStyle = 1 + pick(rt, "optstyle", 3)
	}
}

// addHelperNamedKeys: a size map may list keys that name no node of the graph - they must be ignored. Keys that look like
// helper IDs (V1, NE0 ...) are the interesting ones: a seeded change (seeded/r3-m16) applied the size function to helper
// nodes as well. Only added when no real node carries such an ID.
func addHelperNamedKeys(rt *rapid.T, c *Case, dim func(string, bool) float64) {
	if !chance(rt, "helper_named_keys", 1, 5) || hasHelperLikeID(c.Edges) {
		return
	}
	for _, k := range []string{"V1", "V2", "V3", "NE0", "NE1"} {
		if rapid.Bool().Draw(rt, "key_"+k) {
			c.Sizes[k] = Sz{dim("xw", false), dim("xh", false)}
		}
	}
}

// inSplineSafeDomain is the domain D_S of DESIGN.md (known finding K3): outside it EdgeRoutingSplines hands a
// degenerate corridor to the path router.
func inSplineSafeDomain(c *Case) bool {
	if c.Pos == PosBK {
		return false
	}
	if c.NodeSpacing() <= 0 || c.LayerSpacing() <= 0 {
		return false
	}
	if c.Pos == PosNS {
		// the NetworkSimplex positioner works on an integer grid (C04's quantifier): it rounds the centre distance of
		// neighbours, so a fractional NodeSpacing below 0.5 leaves neighbours touching - zero-width corridor rectangles
		if c.NodeSpacing() < 1 || c.NodeSpacing() != math.Trunc(c.NodeSpacing()) {
			return false
		}
		for _, id := range NodeIDs(c.Edges) {
			if w := c.ConfiguredSize(id).W; w != math.Trunc(w) {
				return false
			}
		}
	}
	ids := NodeIDs(c.Edges)
	h := c.ConfiguredSize(ids[0]).H
	if h <= 0 {
		return false
	}
	for _, id := range ids {
		s := c.ConfiguredSize(id)
		if s.H != h || s.W <= 0 {
			return false
		}
	}
	return true
}

var (
	allCB        = []int{CBGreedy, CBGreedyRandom, CBDepthFirst}
	detCB        = []int{CBGreedy, CBDepthFirst}
	allLay       = []int{LayNS, LayLP}
	allPos       = []int{PosSink, PosVAlign, PosPackRight, PosNS, PosBK}
	sizeAwarePos = []int{PosSink, PosVAlign, PosPackRight, PosNS}
	fastPos      = []int{PosSink, PosVAlign, PosPackRight, PosBK}
	allRt        = []int{RtPolyline, RtStraight, RtOrtho, RtSplines, RtNoop}
	allFam       = []int{FamMulti, FamSimple, FamDag, FamConn, FamTree, FamLadder, FamMotif}
)

// ---------------------------------------------------------------------------------------------------------
// The giant regime: Test<ID>Giant runs a property's own generator and oracle with VERIF_REGIME=giant, under which
// genGraph makes one part of every case a thin giant (130..1100 nodes; regular or random structure, see
// genRegularGiant / genThinGiant). A few hundred cases per property: count thresholds and iteration counts that only
// hundreds of nodes, edges or layers reach, at the price of a medium-sized random graph.

func runGiant(t *testing.T, p *Property) {
	os.Setenv("VERIF_REGIME", "giant")
	defer os.Unsetenv("VERIF_REGIME")
	runGenerated(t, p)
}

func TestC01Giant(t *testing.T) { runGiant(t, propC01) }
func TestC02Giant(t *testing.T) { runGiant(t, propC02) }
func TestC03Giant(t *testing.T) { runGiant(t, propC03) }
func TestC04Giant(t *testing.T) { runGiant(t, propC04) }
func TestC05Giant(t *testing.T) { runGiant(t, propC05) }
func TestC06Giant(t *testing.T) { runGiant(t, propC06) }
func TestC07Giant(t *testing.T) { runGiant(t, propC07) }
func TestC08Giant(t *testing.T) { runGiant(t, propC08) }
func TestC11Giant(t *testing.T) { runGiant(t, propC11) }
func TestC14Giant(t *testing.T) { runGiant(t, propC14) }
