package verifh

import (
	"fmt"
	"os"
	"strconv"
	"testing"

	"github.com/nulab/autog"
	"github.com/nulab/autog/graph"
	"github.com/nulab/autog/internal/phase2"
	"pgregory.net/rapid"
)

// recMonitor records what the properties need from the monitor stream
type recMonitor struct {
	crossings int
	crossEv   int
	nsExits   []phase2.VerifNsExit
	events    int
}

func (m *recMonitor) Log(phase int, alg, key string, val any) {
	m.events++
	if phase == 3 && key == "crossings" {
		if x, ok := val.(int); ok {
			m.crossings += x
			m.crossEv++
		}
	}
	if key == "verif-ns-exit" {
		if x, ok := val.(phase2.VerifNsExit); ok {
			m.nsExits = append(m.nsExits, x)
		}
	}
}

// ---------------------------------------------------------------------------------------------------------
// C10 — network-simplex layering is optimal and contiguous

var propC10 = register(&Property{
	ID: "C10",
	Rule: "connected graphs and unions, shifted to larger sizes (8..40 nodes, <=2n+ edges) plus small ones x all cycle breakers x thoroughness {default,1,2,5,28,1000,0} x NetworkSimplex layering; " +
		"oracle: feasibility, max-closure/max-flow optimality certificate on the drawn orientation (runs that hit the iteration cap, reported by hook H2, are not judged for optimality), contiguous bands; " +
		"non-trivial = at least one simplex pivot happened (hook H2), i.e. the initial ranking was not already optimal",
	New:   func() any { return &Case{} },
	Gen:   func(rt *rapid.T, s *Stats) any { return genC10(rt, s) },
	Check: func(c any) *Outcome { return checkC10(c.(*Case)) },
})

func genC10(rt *rapid.T, st *Stats) *Case {
	var n int
	var ies []iedge
	switch r := pick(rt, "c10_regime", 10); {
	case r < 2: // small, any family
		n, ies, _ = genGraph(rt, GraphSpec{MaxN: 10, MaxM: 16, Families: allFam, Union: true, SelfLoops: true, Parallel: true})
	case r < 8: // medium connected (the pinned cut-value defect only showed from about 12 nodes)
		n = rapid.IntRange(8, 24).Draw(rt, "n")
		ies = genConnN(rt, n, rapid.IntRange(0, n+4).Draw(rt, "extra"))
	default: // larger
		hi := 40
		if thorough() {
			hi = 60
		}
		n = rapid.IntRange(20, hi).Draw(rt, "n")
		ies = genConnN(rt, n, rapid.IntRange(0, n).Draw(rt, "extra"))
	}
	c := &Case{Edges: toEdges(ies, nameScheme(rt))}
	genOptions(rt, c, NodeIDs(c.Edges), OptSpec{CBs: allCB, Lays: []int{LayNS}, Poss: []int{PosVAlign}, Rts: []int{RtNoop},
		Thorough: true, Virt: false, Sizes: 1, NSZero: true, LSZero: false, DefaultsOK: true})
	return c
}

// genConnN: random spanning tree with random orientations plus extra edges, in a drawn edge order
func genConnN(rt *rapid.T, n, extra int) []iedge {
	var es []iedge
	for i := 1; i < n; i++ {
		p := pick(rt, "parent", i)
		if rapid.Bool().Draw(rt, "flip") {
			es = append(es, iedge{i, p})
		} else {
			es = append(es, iedge{p, i})
		}
	}
	for i := 0; i < extra; i++ {
		a := pick(rt, "a", n)
		b := (a + 1 + pick(rt, "b", n-1)) % n
		es = append(es, iedge{a, b})
	}
	perm := rapid.Permutation(iota_(n)).Draw(rt, "relabel")
	for i := range es {
		es[i] = iedge{perm[es[i][0]], perm[es[i][1]]}
	}
	return rapid.Permutation(es).Draw(rt, "edge_order")
}

func checkC10(c *Case) *Outcome {
	o := &Outcome{}
	structuralClasses(c, o)
	optionClasses(c, o)
	if c.Lay != LayNS {
		return o.failf("bad case: C10 is about NetworkSimplex layering")
	}
	mon := &recMonitor{}
	l, perr := c.Run(autog.WithMonitor(mon))
	if perr != nil {
		return o.failf("Layout panicked: %v", perr)
	}
	v := NewView(c, l)
	if !v.AllReturned() {
		return o.failf("not all input nodes were returned (see C02)")
	}
	var des [][2]string
	for _, d := range v.Drawn() {
		if v.Band[d.V]-v.Band[d.U] < 1 {
			return o.failf("infeasible layering: drawn edge %q->%q spans %d bands", d.U, d.V, v.Band[d.V]-v.Band[d.U])
		}
		des = append(des, [2]string{d.U, d.V})
	}
	// contiguity: consecutive bands are exactly one LayerSpacing apart (an empty layer in between would add a second one)
	ls := c.LayerSpacing()
	for ci := 0; ci < v.NComp; ci++ {
		for b := 1; b < v.NBand[ci]; b++ {
			want := v.BandY[[2]int{ci, b - 1}] + v.BandH[[2]int{ci, b - 1}] + ls
			if !near(v.BandY[[2]int{ci, b}], want) {
				return o.failf("component %d: band %d at y=%v, expected %v (band above + its height + one LayerSpacing): an empty band lies in between", ci, b, v.BandY[[2]int{ci, b}], want)
			}
		}
	}
	pivots, capped := 0, false
	for _, x := range mon.nsExits {
		pivots += x.Pivots
		switch x.Reason {
		case "capped":
			capped = true
		case "no-entering-edge":
			o.class("exit=no-entering-edge")
		}
	}
	o.classIf(capped, "exit=capped(not judged for optimality)")
	o.classIf(pivots > 0, "pivots>0")
	if !capped {
		if gain := layeringImprovable(v.IDs, v.Band, des); gain > 0 {
			tot := 0
			for _, e := range des {
				tot += v.Band[e[1]] - v.Band[e[0]]
			}
			return o.failf("layering is not optimal: total edge length %d can be reduced by %d by moving a closed node set up one band (iteration cap not hit: exits=%+v)", tot, gain, mon.nsExits)
		}
	}
	o.NonTrivial = pivots > 0 && !capped
	return o
}

func TestC10(t *testing.T) { runGenerated(t, propC10) }

// TestC10OracleSelfTest: the certificate is not trusted blindly. On random small DAGs with random feasible layerings it
// must agree with a brute-force optimum: "improvable" <=> total length > minimum.
func TestC10OracleSelfTest(t *testing.T) {
	st := newStats("C10", "self-test of the optimality certificate against brute force (<=6 nodes); not counted as evidence of the property")
	agree := 0
	rapid.Check(t, func(rt *rapid.T) {
		n := rapid.IntRange(2, 6).Draw(rt, "n")
		m := rapid.IntRange(1, 9).Draw(rt, "m")
		ids := make([]string, n)
		for i := range ids {
			ids[i] = nid(i)
		}
		var des [][2]string
		for i := 0; i < m; i++ {
			a := pick(rt, "a", n)
			b := (a + 1 + pick(rt, "b", n-1)) % n
			if a > b {
				a, b = b, a
			}
			des = append(des, [2]string{nid(a), nid(b)})
		}
		// random feasible layering: longest-path from sources plus random extra slack, then compacted randomly
		lam := map[string]int{}
		for i := 0; i < n; i++ {
			l := 0
			for _, e := range des {
				if e[1] == nid(i) {
					l = max(l, lam[e[0]]+1)
				}
			}
			lam[nid(i)] = l + rapid.IntRange(0, 2).Draw(rt, "slack")
		}
		tot := 0
		for _, e := range des {
			tot += lam[e[1]] - lam[e[0]]
		}
		best := bruteMinLength(ids, des)
		gainUp := closureGain(ids, lam, des, false)
		gainDown := closureGain(ids, lam, des, true)
		if (gainUp > 0) != (tot > best) || (gainDown > 0) != (tot > best) {
			rt.Fatalf("certificate disagrees with brute force: total=%d best=%d gainUp=%d gainDown=%d edges=%v lam=%v", tot, best, gainUp, gainDown, des, lam)
		}
		agree++
	})
	_ = st
	t.Logf("certificate agreed with brute force on %d instances", agree)
}

// ---------------------------------------------------------------------------------------------------------
// C11 — longest-path layering

var propC11 = register(&Property{
	ID: "C11",
	Rule: "all graph families x all cycle breakers x LongestPath layering; oracle: independent longest-path-to-sink computation on the drawn orientation: " +
		"bottom band - band(v) == h(v) for every node, number of bands == 1 + max h; non-trivial = >=3 bands and a node with two out-edges of different span",
	New:   func() any { return &Case{} },
	Gen:   func(rt *rapid.T, s *Stats) any { return genC11(rt, s) },
	Check: func(c any) *Outcome { return checkC11(c.(*Case)) },
})

func genC11(rt *rapid.T, st *Stats) *Case {
	return genBandCase(rt, allFam, allCB, []int{LayLP}, []int{PosVAlign, PosSink}, []int{RtNoop}, 0, false, regimeW([3]int{900, 95, 5}, [3]int{700, 270, 30}))
}

func checkC11(c *Case) *Outcome {
	o := &Outcome{}
	structuralClasses(c, o)
	optionClasses(c, o)
	if c.Lay != LayLP {
		return o.failf("bad case: C11 is about LongestPath layering")
	}
	l, perr := c.Run()
	if perr != nil {
		return o.failf("Layout panicked: %v", perr)
	}
	v := NewView(c, l)
	if !v.AllReturned() {
		return o.failf("not all input nodes were returned (see C02)")
	}
	var des [][2]string
	for _, d := range v.Drawn() {
		des = append(des, [2]string{d.U, d.V})
	}
	h := longestToSink(v.IDs, des)
	if h == nil {
		return o.failf("the drawn orientation (input direction, flipped where ArrowHeadStart) is cyclic")
	}
	maxH := map[int]int{}
	for _, id := range v.IDs {
		maxH[v.Comp[id]] = max(maxH[v.Comp[id]], h[id])
	}
	maxBands := 0
	for ci := 0; ci < v.NComp; ci++ {
		maxBands = max(maxBands, v.NBand[ci])
		if v.NBand[ci] != 1+maxH[ci] {
			return o.failf("component %d has %d bands, its longest drawn path has %d nodes", ci, v.NBand[ci], 1+maxH[ci])
		}
	}
	for _, id := range v.IDs {
		ci := v.Comp[id]
		if above := v.NBand[ci] - 1 - v.Band[id]; above != h[id] {
			return o.failf("node %q sits %d bands above the bottom band, its longest path to a sink has %d edges", id, above, h[id])
		}
	}
	diffSpan := false
	spans := map[string]map[int]bool{}
	for _, e := range des {
		if spans[e[0]] == nil {
			spans[e[0]] = map[int]bool{}
		}
		spans[e[0]][v.Band[e[1]]-v.Band[e[0]]] = true
		if len(spans[e[0]]) >= 2 {
			diffSpan = true
		}
	}
	o.classIf(maxBands >= 3, "bands>=3")
	o.NonTrivial = maxBands >= 3 && diffSpan
	return o
}

func TestC11(t *testing.T) { runGenerated(t, propC11) }

// ---------------------------------------------------------------------------------------------------------
// C12 — reported crossings = crossings of the drawing

var propC12 = register(&Property{
	ID: "C12",
	Rule: "simple graphs (no parallel/antiparallel edges, no self-loops) in three regimes: small; wide (layers of 6-12 nodes); deep (ladders of 65-80 layers, the only way to reach layer indices >= 64) " +
		"x both layerers x size-aware positioners x Polyline x NodeSpacing >= 0 (1 case in 8 of the small/wide regimes uses 0..0.5) x LayerSpacing > 0 x a recording monitor; " +
		"oracle: sum of the phase-3 'crossings' events == inversion count by x-order over all adjacent band pairs of the returned drawing (with t pairs tied in x: inversions <= reported <= inversions + t); non-trivial = reported count >= 1, >= 3 bands, no ties",
	New:   func() any { return &Case{} },
	Gen:   func(rt *rapid.T, s *Stats) any { return genC12(rt, s) },
	Check: func(c any) *Outcome { return checkC12(c.(*Case)) },
})

func genC12(rt *rapid.T, st *Stats) *Case {
	var n int
	var ies []iedge
	regime := os.Getenv("VERIF_C12_REGIME")
	if regime == "" {
		regime = []string{"small", "small", "small", "wide"}[pick(rt, "c12_regime", 4)]
	}
	switch regime {
	case "small":
		n, ies, _ = genGraph(rt, GraphSpec{MaxN: 12, MaxM: 22, Families: []int{FamSimple, FamConn, FamDag, FamLadder, FamTree}, Union: true, SelfLoops: false, Parallel: false})
	case "wide":
		// few layers, many nodes per layer, random bipartite-ish edges between consecutive layers + some long edges
		L := rapid.IntRange(2, 5).Draw(rt, "L")
		W := rapid.IntRange(6, 12).Draw(rt, "W")
		n, ies = genLayered(rt, L, W, rapid.IntRange(W, 3*W).Draw(rt, "per_gap"), rapid.IntRange(0, 6).Draw(rt, "long"))
	case "xwide":
		// two or three layers of 65..80 nodes: positions >= 64 inside a layer (bit-mask style thresholds; seeded/r2-m12)
		// (kept just above the threshold and sparse: 80-wide layers with 1.5 edges per node took 37 s in the ordering phase)
		n, ies = genRootedWide(rt, rapid.IntRange(2, 3).Draw(rt, "L"), rapid.IntRange(65, 72).Draw(rt, "W"))
	case "deep":
		// kept narrow: a 70 x 3 ladder costs about a second, 80 x 5 with 11 edges per gap ran for minutes in the ordering phase
		L := rapid.IntRange(65, 80).Draw(rt, "L")
		W := rapid.IntRange(2, 3).Draw(rt, "W")
		n, ies = genLayered(rt, L, W, rapid.IntRange(W, W+2).Draw(rt, "per_gap"), rapid.IntRange(0, 3).Draw(rt, "long"))
	}
	ies = dedupe(ies)
	c := &Case{Edges: toEdges(ies, nameScheme(rt))}
	poss := []int{PosSink, PosVAlign, PosPackRight}
	if regime == "small" && n <= 12 && len(ies) <= 20 {
		poss = sizeAwarePos
	}
	lays := allLay
	if regime == "xwide" {
		lays = []int{LayNS, LayLP}
	}
	if regime == "deep" {
		lays = []int{LayNS, LayNS, LayNS, LayLP}
	}
	genOptions(rt, c, NodeIDs(c.Edges), OptSpec{CBs: allCB, Lays: lays, Poss: poss, Rts: []int{RtPolyline},
		Thorough: false, Virt: true, Sizes: 1, IntForNS: true, NSZero: false, LSZero: false, DefaultsOK: true})
	// boundary spacings: NodeSpacing 0 or below the NetworkSimplex positioner's rounding step. Neighbours may then share an
	// x, and the order of a layer is held by zero-length constraints alone (seeded/r4-m12 dropped exactly those)
	if (regime == "small" || regime == "wide") && chance(rt, "tiny_node_spacing", 1, 8) {
		c.NS = ptr([]float64{0, 0, 0.001, 0.1, 0.3, 0.4, 0.5}[pick(rt, "tiny_ns", 7)])
	}
	return c
}

// genRootedWide: a root above L layers of W nodes; consecutive layers are joined by a perfect matching (every node of
// both layers gets an edge) plus W/4..W/2 random extra edges, so that some crossings are unavoidable, also among the
// high positions. One component, every wide layer really holds W nodes. Node numbering and edge order are drawn.
func genRootedWide(rt *rapid.T, L, W int) (int, []iedge) {
	n := L*W + 1
	root := L * W
	var ies []iedge
	for k := 0; k < W; k++ {
		ies = append(ies, iedge{root, k})
	}
	for l := 0; l+1 < L; l++ {
		match := rapid.Permutation(iota_(W)).Draw(rt, "matching")
		for k := 0; k < W; k++ {
			ies = append(ies, iedge{l*W + k, (l+1)*W + match[k]})
		}
		for k := rapid.IntRange(W/4, W/2).Draw(rt, "more"); k > 0; k-- {
			ies = append(ies, iedge{l*W + pick(rt, "xu", W), (l+1)*W + pick(rt, "xl", W)})
		}
	}
	perm := rapid.Permutation(iota_(n)).Draw(rt, "relabel")
	for i := range ies {
		ies[i] = iedge{perm[ies[i][0]], perm[ies[i][1]]}
	}
	return n, rapid.Permutation(ies).Draw(rt, "edge_order")
}

// genLayered: L layers of W nodes; perGap random edges between each pair of consecutive layers (so every layer stays
// populated: the first W of them are one per lower node), plus `long` edges that skip 2..4 layers. Node numbering is permuted.
func genLayered(rt *rapid.T, L, W, perGap, long int) (int, []iedge) {
	n := L * W
	id := func(l, w int) int { return l*W + w }
	var es []iedge
	for l := 0; l+1 < L; l++ {
		for k := 0; k < perGap; k++ {
			lo := k % W
			if k >= W {
				lo = pick(rt, "lo", W)
			}
			es = append(es, iedge{id(l, pick(rt, "up", W)), id(l+1, lo)})
		}
	}
	for k := 0; k < long && L > 2; k++ {
		a := pick(rt, "la", L-2)
		b := min(L-1, a+2+pick(rt, "skip", 3))
		es = append(es, iedge{id(a, pick(rt, "lw", W)), id(b, pick(rt, "lw2", W))})
	}
	perm := rapid.Permutation(iota_(n)).Draw(rt, "relabel")
	for i := range es {
		es[i] = iedge{perm[es[i][0]], perm[es[i][1]]}
	}
	return n, rapid.Permutation(es).Draw(rt, "edge_order")
}

func checkC12(c *Case) *Outcome {
	o := &Outcome{}
	structuralClasses(c, o)
	optionClasses(c, o)
	if HasParallel(c.Edges) || CountSelfLoops(c.Edges) > 0 {
		return o.failf("bad case: C12 is stated for graphs without parallel/antiparallel edges")
	}
	if c.Rt != RtPolyline || c.NodeSpacing() < 0 || c.LayerSpacing() <= 0 || c.Pos == PosBK {
		return o.failf("bad case: C12 needs Polyline routing, a positive layer spacing and a size-aware positioner")
	}
	mon := &recMonitor{}
	l, perr := c.Run(autog.WithMonitor(mon))
	if perr != nil {
		return o.failf("Layout panicked: %v", perr)
	}
	v := NewView(c, l)
	if !v.AllReturned() {
		return o.failf("not all input nodes were returned (see C02)")
	}
	ps, ok := drawingPieces(v)
	if !ok {
		o.class("uncountable(polyline shape is C06's business)")
		return o
	}
	// drawn = strict x-order inversions. Where two different nodes / bends of a band share an x (zero widths with zero
	// spacing; the NetworkSimplex positioner rounds a centre distance below 0.5 to 0) the pair is undecidable from the
	// coordinates: then drawn <= reported <= drawn + ties is all the drawing can say; without ties it is an equality.
	drawn, ties := countPieceCrossingsTies(ps)
	if mon.crossings < drawn || mon.crossings > drawn+ties {
		return o.failf("monitor reported %d crossings (%d events), the returned drawing has %d (x-order inversions between adjacent bands; %d pairs tied in x)", mon.crossings, mon.crossEv, drawn, ties)
	}
	o.classIf(ties > 0, "ties_in_x(interval oracle)")
	maxBands := 0
	for _, nb := range v.NBand {
		maxBands = max(maxBands, nb)
	}
	o.classIf(maxBands >= 65, "deep(>=65 bands)")
	o.classIf(maxBands >= 3, "bands>=3")
	o.classIf(drawn >= 1, "crossings>=1")
	wide := false
	cnt := map[[2]int]int{}
	for _, id := range v.IDs {
		k := [2]int{v.Comp[id], v.Band[id]}
		cnt[k]++
		if cnt[k] >= 6 {
			wide = true
		}
	}
	o.classIf(wide, "wide(layer with >=6 nodes)")
	xw := false
	for _, k := range cnt {
		if k >= 65 {
			xw = true
		}
	}
	o.classIf(xw, "xwide(layer with >=65 nodes)")
	o.NonTrivial = drawn >= 1 && maxBands >= 3 && ties == 0
	return o
}

func TestC12(t *testing.T) { runGenerated(t, propC12) }

// TestC12Deep runs the deep regime only (about 0.5-1 s per case), with its own small case count.
func TestC12Deep(t *testing.T) {
	os.Setenv("VERIF_C12_REGIME", "deep")
	defer os.Unsetenv("VERIF_C12_REGIME")
	runGenerated(t, propC12)
}

// TestC12XWide runs the very wide regime only (layers of 65..80 nodes), with its own small case count.
func TestC12XWide(t *testing.T) {
	os.Setenv("VERIF_C12_REGIME", "xwide")
	defer os.Unsetenv("VERIF_C12_REGIME")
	runGenerated(t, propC12)
}

// ---------------------------------------------------------------------------------------------------------
// C13 — rooted trees are drawn planar

type TreeCase struct {
	Opt     *Case `json:"opt"` // Edges hold the tree
	Uniform bool  `json:"uniform"`
}

var propC13 = register(&Property{
	ID: "C13",
	Rule: "rooted out-trees and in-trees: exhaustively all labelled rooted trees x all edge orders for n<=5 (quick) / n<=6 (thorough), random trees up to 40 / 120 nodes with random edge orders; " +
		"x {SinkColoring, VAlign, PackRight} (+ NetworkSimplex positioner up to 10 nodes) x default layering x Polyline; oracle: 0 crossings by x-order, and with uniform node sizes also no two route segments intersect geometrically; " +
		"non-trivial = >=2 internal nodes with >=2 children each",
	New:   func() any { return &TreeCase{Opt: &Case{}} },
	Gen:   func(rt *rapid.T, s *Stats) any { return genC13(rt, s) },
	Check: func(c any) *Outcome { return checkC13(c.(*TreeCase)) },
})

func genC13(rt *rapid.T, st *Stats) *TreeCase {
	hi := 40
	if thorough() {
		hi = 120
	}
	n := rapid.IntRange(2, hi).Draw(rt, "n")
	if chance(rt, "smallish", 1, 2) {
		n = rapid.IntRange(2, 14).Draw(rt, "n_small")
	}
	in := rapid.Bool().Draw(rt, "intree")
	var es []iedge
	// parent choice: uniform, or biased to recent nodes (deep trees), or to node 0 (bushy trees), or wide-and-shallow:
	// a root with w children that share the remaining nodes as grandchildren (two adjacent wide layers, 45..70 nodes in
	// quick: size thresholds on a layer PAIR - seeded/r2-m13 switches algorithm above 512 matrix cells - need that)
	shape := pick(rt, "shape", 4)
	w1 := 0
	// rarely a thin giant: a spine with one to three leaves per spine node, 150..600 nodes and as many layers as the spine
	// is long (count thresholds and iteration counts that grow with a tree's depth; see genThinGiant for the cost argument)
	giantLegs := 0
	if chance(rt, "giant_tree", 1, 40) {
		shape = 4
		n = rapid.IntRange(150, 600).Draw(rt, "n_giant")
		giantLegs = rapid.IntRange(1, 3).Draw(rt, "giant_legs")
	}
	if shape == 3 {
		n = rapid.IntRange(45, hi+30).Draw(rt, "n_wide")
		w1 = rapid.IntRange(n/3, n/2).Draw(rt, "w1")
	}
	for i := 1; i < n; i++ {
		var p int
		switch shape {
		case 0:
			p = pick(rt, "parent", i)
		case 1:
			p = i - 1 - pick(rt, "back", min(i, 3))
		case 2:
			p = pick(rt, "parent_bushy", min(i, 4))
		case 4:
			// nodes 0, g+1, 2(g+1) ... form the spine; the g nodes after a spine node are its leaves
			g := giantLegs + 1
			if i%g == 0 {
				p = i - g
			} else {
				p = i - i%g
			}
		default:
			if i <= w1 {
				p = 0
			} else if chance(rt, "tail", 1, 12) {
				p = i - 1 // a thin tail below the wide layers
			} else {
				p = 1 + pick(rt, "parent_wide", w1)
			}
		}
		if in {
			es = append(es, iedge{i, p})
		} else {
			es = append(es, iedge{p, i})
		}
	}
	perm := rapid.Permutation(iota_(n)).Draw(rt, "relabel")
	for i := range es {
		es[i] = iedge{perm[es[i][0]], perm[es[i][1]]}
	}
	if len(es) > 1 && !(shape == 4 && chance(rt, "as_generated", 1, 3)) {
		es = rapid.Permutation(es).Draw(rt, "edge_order")
	}
	tc := &TreeCase{Opt: &Case{Edges: toEdges(es, nameScheme(rt))}}
	poss := []int{PosSink, PosVAlign, PosPackRight}
	if n <= 10 {
		poss = sizeAwarePos
	}
	tc.Uniform = rapid.Bool().Draw(rt, "uniform")
	sz := 1
	if tc.Uniform {
		sz = 3
	}
	genOptions(rt, tc.Opt, NodeIDs(tc.Opt.Edges), OptSpec{CBs: allCB, Lays: []int{LayNS}, Poss: poss, Rts: []int{RtPolyline},
		Thorough: false, Virt: true, Sizes: sz, IntForNS: true, NSZero: true, LSZero: false, DefaultsOK: true})
	// boundary: NodeSpacing 0 with zero-width nodes next to wide ones. Neighbours may then share an x, which is not a
	// crossing - but nothing except the order constraints themselves keeps them in order (seeded/r5-m13 skipped the
	// constraint when block width + spacing is 0). The oracle counts strict inversions only, so ties cannot alarm.
	if !tc.Uniform && tc.Opt.Sizes != nil && chance(rt, "zero_spacing_zero_widths", 1, 8) {
		tc.Opt.NS = ptr(0.0)
		for _, id := range NodeIDs(tc.Opt.Edges) {
			if rapid.Bool().Draw(rt, "zero_w") {
				s := tc.Opt.Sizes[id]
				s.W = 0
				tc.Opt.Sizes[id] = s
			}
		}
	}
	return tc
}

func isRootedTree(es [][2]string) (ok bool, branching int) {
	ids := NodeIDs(es)
	if len(es) != len(ids)-1 {
		return false, 0
	}
	if _, nc := Components(es); nc != 1 {
		return false, 0
	}
	indeg, outdeg := map[string]int{}, map[string]int{}
	for _, e := range es {
		outdeg[e[0]]++
		indeg[e[1]]++
	}
	out, in := true, true
	for _, id := range ids {
		if indeg[id] > 1 {
			out = false
		}
		if outdeg[id] > 1 {
			in = false
		}
	}
	if !out && !in {
		return false, 0
	}
	for _, id := range ids {
		if (out && outdeg[id] >= 2) || (!out && indeg[id] >= 2) {
			branching++
		}
	}
	return true, branching
}

func checkC13(tc *TreeCase) *Outcome {
	o := &Outcome{}
	c := tc.Opt
	optionClasses(c, o)
	ok, branching := isRootedTree(c.Edges)
	if !ok {
		return o.failf("bad case: not a rooted tree with all edges pointing away from / toward the root")
	}
	if c.Rt != RtPolyline || c.LayerSpacing() <= 0 || c.NodeSpacing() < 0 || c.Pos == PosBK || c.Lay != LayNS {
		return o.failf("bad case: C13 is checked with default layering, Polyline routing, a positive layer spacing, size-aware positioners")
	}
	o.classIf(c.NodeSpacing() == 0, "node_spacing=0")
	l, perr := c.Run()
	if perr != nil {
		return o.failf("Layout panicked: %v", perr)
	}
	v := NewView(c, l)
	if !v.AllReturned() {
		return o.failf("not all input nodes were returned (see C02)")
	}
	ps, pok := drawingPieces(v)
	if !pok {
		o.class("uncountable(polyline shape is C06's business)")
		return o
	}
	if x := countPieceCrossings(ps); x != 0 {
		return o.failf("tree drawn with %d edge crossings (by x-order between adjacent bands)", x)
	}
	// With uniform node sizes and no bends (every edge spans one band - the usual case in a tree, though vertical
	// balancing may stretch an edge) all anchors of a band lie on one horizontal line, so "in order at both bands" and
	// "the segments do not intersect" are the same statement: then both are asserted. With bends they are not (bends
	// sit mid-band, DESIGN.md section 4) and only the x-order count is the property's crossing number.
	bends := false
	for _, e := range l.Edges {
		if len(e.Points) > 2 {
			bends = true
		}
	}
	if tc.Uniform && uniformSizes(c) && !bends {
		if x := countGeometricCrossings(l); x != 0 {
			return o.failf("tree drawn with %d geometric edge crossings", x)
		}
		o.class("uniform(geometric check too)")
	}
	n := len(v.IDs)
	switch {
	case n <= 6:
		o.class("tree_nodes<=6")
	case n <= 14:
		o.class("tree_nodes<=14")
	default:
		o.class("tree_nodes>14")
	}
	o.NonTrivial = branching >= 2
	return o
}

func uniformSizes(c *Case) bool {
	ids := NodeIDs(c.Edges)
	s0 := c.ConfiguredSize(ids[0])
	for _, id := range ids {
		if c.ConfiguredSize(id) != s0 {
			return false
		}
	}
	return true
}

func TestC13(t *testing.T) { runGenerated(t, propC13) }

// TestC13Exhaustive enumerates ALL labelled rooted trees on n nodes (Pruefer sequences x roots), both orientations,
// ALL edge orders, for n = 2..N, and three positioners (four for the smallest). Sharded by Pruefer index.
func TestC13Exhaustive(t *testing.T) {
	startWatchdog()
	N, _ := strconv.Atoi(getenv("VERIF_C13_N", "5"))
	nsh, _ := strconv.Atoi(getenv("VERIF_NSHARDS", "1"))
	st := newStats("C13", propC13.Rule)
	complete := false
	defer func() { st.write(complete) }()
	idx := 0
	for n := 2; n <= N; n++ {
		forEachLabelledTree(n, func(tree [][2]int) {
			for root := 0; root < n; root++ {
				idx++
				if idx%nsh != cfg.Shard {
					continue
				}
				oriented := orientFrom(tree, root, n)
				for _, in := range []bool{false, true} {
					es := make([]iedge, len(oriented))
					for i, e := range oriented {
						if in {
							es[i] = iedge{e[1], e[0]}
						} else {
							es[i] = e
						}
					}
					forEachPermutation(es, func(p []iedge) {
						poss := []int{PosSink, PosVAlign, PosPackRight}
						if n <= 4 {
							poss = sizeAwarePos
						}
						for _, pos := range poss {
							tc := &TreeCase{Uniform: true, Opt: &Case{Edges: toEdges(p, nid), Pos: pos, Rt: RtPolyline, SzMode: SzFixed, Fixed: Sz{40, 20}, NS: ptr(10.0), LS: ptr(30.0)}}
							o := runCase(propC13, tc, st)
							if o.Err != nil {
								writeFailCase("C13", tc, o.Err)
								t.Fatalf("property C13 violated (exhaustive enumeration): %v\ncase: %s", o.Err, mustRaw(tc))
							}
						}
					})
				}
			}
		})
	}
	complete = true
	st.Extra["exhaustive_max_n"] = N
}

// forEachLabelledTree enumerates all n^(n-2) labelled trees on nodes 0..n-1 through their Pruefer sequences.
func forEachLabelledTree(n int, fn func([][2]int)) {
	if n == 2 {
		fn([][2]int{{0, 1}})
		return
	}
	seq := make([]int, n-2)
	var rec func(i int)
	rec = func(i int) {
		if i == n-2 {
			fn(pruferDecode(seq, n))
			return
		}
		for v := 0; v < n; v++ {
			seq[i] = v
			rec(i + 1)
		}
	}
	rec(0)
}

func pruferDecode(seq []int, n int) [][2]int {
	deg := make([]int, n)
	for i := range deg {
		deg[i] = 1
	}
	for _, v := range seq {
		deg[v]++
	}
	var es [][2]int
	for _, v := range seq {
		for u := 0; u < n; u++ {
			if deg[u] == 1 {
				es = append(es, [2]int{u, v})
				deg[u]--
				deg[v]--
				break
			}
		}
	}
	var last []int
	for u := 0; u < n; u++ {
		if deg[u] == 1 {
			last = append(last, u)
		}
	}
	es = append(es, [2]int{last[0], last[1]})
	return es
}

// orientFrom directs all tree edges away from root
func orientFrom(tree [][2]int, root, n int) []iedge {
	adj := make([][]int, n)
	for _, e := range tree {
		adj[e[0]] = append(adj[e[0]], e[1])
		adj[e[1]] = append(adj[e[1]], e[0])
	}
	var out []iedge
	seen := make([]bool, n)
	q := []int{root}
	seen[root] = true
	for len(q) > 0 {
		u := q[0]
		q = q[1:]
		for _, w := range adj[u] {
			if !seen[w] {
				seen[w] = true
				out = append(out, iedge{u, w})
				q = append(q, w)
			}
		}
	}
	return out
}

func forEachPermutation(es []iedge, fn func([]iedge)) {
	p := append([]iedge(nil), es...)
	var rec func(k int)
	rec = func(k int) {
		if k == len(p) {
			fn(p)
			return
		}
		for i := k; i < len(p); i++ {
			p[k], p[i] = p[i], p[k]
			rec(k + 1)
			p[k], p[i] = p[i], p[k]
		}
	}
	rec(0)
}

// ---------------------------------------------------------------------------------------------------------
// C14 — DepthFirst reverses an irredundant set; acyclic inputs keep all directions

var propC14 = register(&Property{
	ID: "C14",
	Rule: "cyclic multigraphs/motifs x DepthFirst (single-edge irredundancy of the reversed set) and acyclic multigraphs with parallel edges x {Greedy, Greedy+random, DepthFirst} (no reversal at all); " +
		"plus exhaustively every multigraph with <=3 nodes and <=4 edges in every edge order; non-trivial = >=2 reversed edges, or an acyclic input with a parallel pair",
	New:   func() any { return &Case{} },
	Gen:   func(rt *rapid.T, s *Stats) any { return genC14(rt, s) },
	Check: func(c any) *Outcome { return checkC14(c.(*Case)) },
})

func genC14(rt *rapid.T, st *Stats) *Case {
	maxN, maxM, _ := sizeRegime(rt, 900, 95, 5)
	var n int
	var ies []iedge
	acyclicWanted := chance(rt, "acyclic", 2, 5)
	if acyclicWanted {
		n, ies, _ = genGraph(rt, GraphSpec{MaxN: maxN, MaxM: maxM, Families: []int{FamDag, FamDag, FamTree, FamLadder}, Union: true, SelfLoops: true, Parallel: true})
		if chance(rt, "dup_edge", 1, 2) { // parallel copies in a DAG: the pinned two-node-cycle pre-pass reversed them
			k := rapid.IntRange(1, 3).Draw(rt, "dups")
			for i := 0; i < k; i++ {
				ies = append(ies, ies[pick(rt, "dup", len(ies))])
			}
			ies = rapid.Permutation(ies).Draw(rt, "edge_order2")
		}
	} else {
		n, ies, _ = genGraph(rt, GraphSpec{MaxN: maxN, MaxM: maxM, Families: []int{FamMulti, FamMulti, FamMotif, FamConn, FamSimple}, Union: true, SelfLoops: true, Parallel: true})
	}
	_ = n
	c := &Case{Edges: toEdges(ies, nameScheme(rt))}
	genOptions(rt, c, NodeIDs(c.Edges), OptSpec{CBs: []int{CBDepthFirst, CBDepthFirst, CBGreedy, CBGreedyRandom}, Lays: allLay, Poss: []int{PosVAlign}, Rts: []int{RtNoop},
		Thorough: false, Virt: false, Sizes: 0, NSZero: true, LSZero: true, DefaultsOK: true})
	return c
}

func checkC14(c *Case) *Outcome {
	o := &Outcome{}
	cyclic, par, _, _ := structuralClasses(c, o)
	optionClasses(c, o)
	l, perr := c.Run()
	if perr != nil {
		return o.failf("Layout panicked: %v", perr)
	}
	if len(l.Edges) != len(c.Edges) {
		return o.failf("%d edges returned for %d input edges (see C02)", len(l.Edges), len(c.Edges))
	}
	rev := 0
	for _, e := range l.Edges {
		if e.ArrowHeadStart {
			rev++
			if !cyclic {
				return o.failf("acyclic input, but edge %q->%q is drawn reversed (ArrowHeadStart)", e.FromID, e.ToID)
			}
		}
	}
	o.classIf(rev >= 2, "reversed>=2")
	if cyclic && c.CB == CBDepthFirst {
		// drawn orientation
		var des [][2]string
		var revIdx []int
		for _, e := range l.Edges {
			if e.FromID == e.ToID {
				continue
			}
			if e.ArrowHeadStart {
				revIdx = append(revIdx, len(des))
				des = append(des, [2]string{e.ToID, e.FromID})
			} else {
				des = append(des, [2]string{e.FromID, e.ToID})
			}
		}
		if IsAcyclic(des) { // otherwise it is C03's violation and "re-creates a cycle" is vacuous
			for _, k := range revIdx {
				flipped := append([][2]string(nil), des...)
				flipped[k] = [2]string{des[k][1], des[k][0]}
				if IsAcyclic(flipped) {
					return o.failf("redundant reversal: un-reversing %q->%q alone leaves the drawn orientation acyclic (%d edges reversed in total)", des[k][1], des[k][0], len(revIdx))
				}
			}
		} else {
			o.class("drawn_orientation_cyclic(C03's business)")
		}
	}
	o.NonTrivial = (cyclic && c.CB == CBDepthFirst && rev >= 2) || (!cyclic && par)
	return o
}

func TestC14(t *testing.T) { runGenerated(t, propC14) }

// TestC14Exhaustive: every multigraph on <= N nodes with 1..M edges (self-loops included), as an ordered edge list
// (which covers every edge order), x {Greedy, DepthFirst} x both layerers. N, M from VERIF_C14_NODES / VERIF_C14_EDGES
// (quick 3/4, thorough 4/5); sharded by list index.
func TestC14Exhaustive(t *testing.T) {
	startWatchdog()
	N, _ := strconv.Atoi(getenv("VERIF_C14_NODES", "3"))
	M, _ := strconv.Atoi(getenv("VERIF_C14_EDGES", "4"))
	nsh, _ := strconv.Atoi(getenv("VERIF_NSHARDS", "1"))
	st := newStats("C14", propC14.Rule)
	complete := false
	defer func() { st.write(complete) }()
	var pairs []iedge
	for a := 0; a < N; a++ {
		for b := 0; b < N; b++ {
			pairs = append(pairs, iedge{a, b})
		}
	}
	idx, lists := 0, 0
	var rec func(es []iedge)
	rec = func(es []iedge) {
		if len(es) >= 1 {
			idx++
			lists++
			if idx%nsh == cfg.Shard {
				for _, cb := range []int{CBGreedy, CBDepthFirst} {
					for _, lay := range allLay {
						c := &Case{Edges: toEdges(es, nid), CB: cb, Lay: lay, Pos: PosVAlign, Rt: RtNoop}
						o := runCase(propC14, c, st)
						if o.Err != nil {
							writeFailCase("C14", c, o.Err)
							t.Fatalf("property C14 violated (exhaustive enumeration): %v\ncase: %s", o.Err, mustRaw(c))
						}
					}
				}
			}
		}
		if len(es) == M {
			return
		}
		for _, p := range pairs {
			rec(append(es, p))
		}
	}
	rec(nil)
	complete = true
	st.Extra["exhaustive_c14"] = fmt.Sprintf("all ordered edge lists of length 1..%d over %d nodes (%d lists) x 2 cycle breakers x 2 layerers", M, N, lists)
}

var _ = graph.Layout{}
