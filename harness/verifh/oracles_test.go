package verifh

import (
	"fmt"
	"math"
	"regexp"
	"sort"

	"github.com/nulab/autog/graph"
)

// Independent reference computations used by several properties. None of them calls into nulab/autog.

// ---------------------------------------------------------------------------------------------------------
// helper-ID collisions

var helperLike = regexp.MustCompile(`^(V|NE)[0-9]+$`)

func hasHelperLikeID(es [][2]string) bool {
	for _, id := range NodeIDs(es) {
		if helperLike.MatchString(id) {
			return true
		}
	}
	return false
}

// ---------------------------------------------------------------------------------------------------------
// longest path to a sink on a DAG given as (u,v) pairs over strings; returns nil if the graph is cyclic

func longestToSink(ids []string, es [][2]string) map[string]int {
	adj := map[string][]string{}
	for _, e := range es {
		adj[e[0]] = append(adj[e[0]], e[1])
	}
	h := map[string]int{}
	state := map[string]int{}
	type frame struct {
		u string
		i int
	}
	for _, root := range ids {
		if state[root] != 0 {
			continue
		}
		st := []frame{{root, 0}}
		state[root] = 1
		for len(st) > 0 {
			f := &st[len(st)-1]
			if f.i < len(adj[f.u]) {
				v := adj[f.u][f.i]
				f.i++
				switch state[v] {
				case 1:
					return nil // cycle
				case 0:
					state[v] = 1
					st = append(st, frame{v, 0})
				}
			} else {
				best := 0
				for _, v := range adj[f.u] {
					best = max(best, 1+h[v])
				}
				h[f.u] = best
				state[f.u] = 2
				st = st[:len(st)-1]
			}
		}
	}
	return h
}

// ---------------------------------------------------------------------------------------------------------
// Max-closure certificate for "the layering minimises total edge length" (DESIGN.md section 4).
//
// lambda is feasible (every drawn edge u->v has lambda[v]-lambda[u] >= 1). It is optimal iff no node set S that is
// closed under "v in S and (u->v) tight  =>  u in S" has more entering than leaving edges: moving such an S up by one
// band keeps feasibility (tight edges into S come from S) and shortens the total by in(S)-out(S); conversely LP duality
// on the totally unimodular difference-constraint system says that if no unit move of a closed set improves, nothing does.
// The maximum-weight closure is computed with a max-flow (Dinic).

type dinic struct {
	n     int
	head  []int
	nxt   []int
	to    []int
	cap   []int
	level []int
	it    []int
}

func newDinic(n int) *dinic {
	d := &dinic{n: n, head: make([]int, n)}
	for i := range d.head {
		d.head[i] = -1
	}
	return d
}

func (d *dinic) add(u, v, c int) {
	d.to = append(d.to, v)
	d.cap = append(d.cap, c)
	d.nxt = append(d.nxt, d.head[u])
	d.head[u] = len(d.to) - 1
	d.to = append(d.to, u)
	d.cap = append(d.cap, 0)
	d.nxt = append(d.nxt, d.head[v])
	d.head[v] = len(d.to) - 1
}

func (d *dinic) bfs(s, t int) bool {
	d.level = make([]int, d.n)
	for i := range d.level {
		d.level[i] = -1
	}
	d.level[s] = 0
	q := []int{s}
	for len(q) > 0 {
		u := q[0]
		q = q[1:]
		for e := d.head[u]; e >= 0; e = d.nxt[e] {
			if d.cap[e] > 0 && d.level[d.to[e]] < 0 {
				d.level[d.to[e]] = d.level[u] + 1
				q = append(q, d.to[e])
			}
		}
	}
	return d.level[t] >= 0
}

func (d *dinic) dfs(u, t, f int) int {
	if u == t {
		return f
	}
	for ; d.it[u] >= 0; d.it[u] = d.nxt[d.it[u]] {
		e := d.it[u]
		if d.cap[e] > 0 && d.level[d.to[e]] == d.level[u]+1 {
			g := d.dfs(d.to[e], t, min(f, d.cap[e]))
			if g > 0 {
				d.cap[e] -= g
				d.cap[e^1] += g
				return g
			}
		}
	}
	return 0
}

func (d *dinic) maxflow(s, t int) int {
	fl := 0
	for d.bfs(s, t) {
		d.it = append([]int(nil), d.head...)
		for {
			f := d.dfs(s, t, 1<<30)
			if f == 0 {
				break
			}
			fl += f
		}
	}
	return fl
}

// layeringImprovable returns the gain (>0) of the best closed set that can move up by one band, or 0 if the layering is optimal.
// des are the drawn edges (upper, lower); lambda the band of every node.
func layeringImprovable(ids []string, lambda map[string]int, des [][2]string) int {
	// moving a predecessor-closed set up is the mirror image of moving its (successor-closed) complement down, and
	// every improving direction decomposes into such unit moves, so one direction decides; the self-test checks that
	// the mirrored computation and a brute-force optimum agree with it on small graphs.
	return closureGain(ids, lambda, des, false)
}

func closureGain(ids []string, lambda map[string]int, des [][2]string, down bool) int {
	idx := make(map[string]int, len(ids))
	for i, id := range ids {
		idx[id] = i
	}
	n := len(ids)
	w := make([]int, n)
	for _, e := range des {
		u, v := idx[e[0]], idx[e[1]]
		if !down {
			w[v]++ // moving v up shortens its in-edges
			w[u]-- // moving u up lengthens its out-edges
		} else {
			w[u]++ // moving u down shortens its out-edges
			w[v]-- // moving v down lengthens its in-edges
		}
	}
	const inf = 1 << 28
	d := newDinic(n + 2)
	s, t := n, n+1
	pos := 0
	for i := 0; i < n; i++ {
		if w[i] > 0 {
			d.add(s, i, w[i])
			pos += w[i]
		} else if w[i] < 0 {
			d.add(i, t, -w[i])
		}
	}
	for _, e := range des {
		if lambda[e[1]]-lambda[e[0]] == 1 { // tight
			if !down {
				d.add(idx[e[1]], idx[e[0]], inf) // v in S => u in S
			} else {
				d.add(idx[e[0]], idx[e[1]], inf) // u in S => v in S
			}
		}
	}
	return pos - d.maxflow(s, t)
}

// bruteMinLength: minimum total edge length over all feasible integer layerings (tiny graphs only): since an optimal
// solution exists with all layers in 0..n-1, enumerate them.
func bruteMinLength(ids []string, des [][2]string) int {
	n := len(ids)
	idx := map[string]int{}
	for i, id := range ids {
		idx[id] = i
	}
	lam := make([]int, n)
	best := math.MaxInt
	var rec func(i int)
	rec = func(i int) {
		if i == n {
			tot := 0
			for _, e := range des {
				d := lam[idx[e[1]]] - lam[idx[e[0]]]
				if d < 1 {
					return
				}
				tot += d
			}
			best = min(best, tot)
			return
		}
		for l := 0; l < n; l++ {
			lam[i] = l
			rec(i + 1)
		}
	}
	rec(0)
	return best
}

// ---------------------------------------------------------------------------------------------------------
// Crossings of a polyline drawing, by x-order per adjacent band pair (C12's own wording: "computed from node and
// bend x-coordinates"). A geometric segment-intersection count is deliberately NOT used (DESIGN.md section 4).

type piece struct {
	comp, band int // between band and band+1 of component comp
	xt, xb     float64
	edge       int
	top, bot   string // what the piece hangs on at its upper / lower end: a node ID, or a name unique to the bend
}

// drawingPieces splits every routed edge into one piece per band gap. ok=false when some polyline does not have exactly
// one point per band it touches (C06's business) or bands are unusable.
func drawingPieces(v *View) (ps []piece, ok bool) {
	for i, e := range v.L.Edges {
		if e.FromID == e.ToID {
			continue
		}
		bf, bt := v.Band[e.FromID], v.Band[e.ToID]
		top := min(bf, bt)
		span := bf - bt
		if span < 0 {
			span = -span
		}
		if span == 0 || len(e.Points) != span+1 {
			return nil, false
		}
		ci := v.Comp[e.FromID]
		upper, lower := e.FromID, e.ToID
		if bt < bf {
			upper, lower = lower, upper
		}
		for k := 0; k < span; k++ {
			pc := piece{comp: ci, band: top + k, xt: e.Points[k][0], xb: e.Points[k+1][0], edge: i,
				top: fmt.Sprintf("\x00bend %d.%d", i, k), bot: fmt.Sprintf("\x00bend %d.%d", i, k+1)}
			if k == 0 {
				pc.top = upper
			}
			if k == span-1 {
				pc.bot = lower
			}
			ps = append(ps, pc)
		}
	}
	return ps, true
}

func countPieceCrossings(ps []piece) int {
	x, _ := countPieceCrossingsTies(ps)
	return x
}

// countPieceCrossingsTies also counts the UNDECIDABLE pairs: two pieces of one band gap that do not share an end node but
// have the same x at the top or at the bottom (nodes of width 0 with NodeSpacing 0, or the NetworkSimplex positioner
// rounding a centre distance below 0.5 to 0). The positioners keep the order of a layer (x is non-decreasing along it),
// so a pair that crosses in the chosen order is drawn as a strict inversion or as a tie, and a pair that does not cross
// is drawn in order or as a tie: strict <= reported <= strict + ties, whatever the ties hide.
func countPieceCrossingsTies(ps []piece) (strict, ties int) {
	groups := map[[2]int][]piece{}
	for _, p := range ps {
		k := [2]int{p.comp, p.band}
		groups[k] = append(groups[k], p)
	}
	for _, g := range groups {
		for i := range g {
			for j := i + 1; j < len(g); j++ {
				a, b := g[i], g[j]
				switch {
				case (a.xt < b.xt && a.xb > b.xb) || (a.xt > b.xt && a.xb < b.xb):
					strict++
				case (a.xt == b.xt && a.top != b.top) || (a.xb == b.xb && a.bot != b.bot):
					ties++
				}
			}
		}
	}
	return strict, ties
}

// geometric proper intersection of two segments (shared endpoints, touching and collinear overlap are not crossings).
// Robust against rounding: bounding boxes must overlap, and an orientation determinant only counts as non-zero when it
// exceeds 1e-9 of its own scale. (The first version compared raw signs: two COLLINEAR, disjoint tree edges in different
// band gaps - determinants 882-882 and 1722-1722 up to rounding - were reported as a crossing in the thorough tier.)
func segsCross(a1, a2, b1, b2 [2]float64) bool {
	if math.Max(a1[0], a2[0]) < math.Min(b1[0], b2[0]) || math.Max(b1[0], b2[0]) < math.Min(a1[0], a2[0]) ||
		math.Max(a1[1], a2[1]) < math.Min(b1[1], b2[1]) || math.Max(b1[1], b2[1]) < math.Min(a1[1], a2[1]) {
		return false
	}
	o := func(p, q, r [2]float64) int {
		u, v := (q[0]-p[0])*(r[1]-p[1]), (q[1]-p[1])*(r[0]-p[0])
		d := u - v
		if math.Abs(d) <= 1e-9*(math.Abs(u)+math.Abs(v)) {
			return 0
		}
		if d > 0 {
			return 1
		}
		return -1
	}
	d1, d2 := o(a1, a2, b1), o(a1, a2, b2)
	d3, d4 := o(b1, b2, a1), o(b1, b2, a2)
	return d1*d2 < 0 && d3*d4 < 0
}

func countGeometricCrossings(l graph.Layout) int {
	type seg struct {
		a, b [2]float64
		e    int
	}
	var segs []seg
	for i, e := range l.Edges {
		for k := 1; k < len(e.Points); k++ {
			segs = append(segs, seg{e.Points[k-1], e.Points[k], i})
		}
	}
	x := 0
	for i := range segs {
		for j := i + 1; j < len(segs); j++ {
			if segs[i].e != segs[j].e && segsCross(segs[i].a, segs[i].b, segs[j].a, segs[j].b) {
				x++
			}
		}
	}
	return x
}

// ---------------------------------------------------------------------------------------------------------
// misc

func sortedFloats(xs []float64) []float64 {
	out := append([]float64(nil), xs...)
	sort.Float64s(out)
	return out
}

func edgeKey(e graph.Edge) string { return fmt.Sprintf("%q>%q", e.FromID, e.ToID) }
