package verifh

import "testing"

// Native fuzz targets (see fuzzTarget). Run by ./check in the thorough tier: go test -fuzz '^FuzzC01$' -fuzztime ...
func FuzzC01(f *testing.F) { fuzzTarget(f, propC01) }
func FuzzC07(f *testing.F) { fuzzTarget(f, propC07) }
