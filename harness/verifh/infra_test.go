package verifh

import (
	"encoding/json"
	"fmt"
	"hash/fnv"
	"math"
	"os"
	"runtime"
	"runtime/debug"
	"runtime/metrics"
	"sort"
	"strconv"
	"strings"
	"sync"
	"sync/atomic"
	"testing"
	"time"

	"pgregory.net/rapid"
)

// ---------------------------------------------------------------------------------------------------------
// Environment handed down by /verif/check

type envCfg struct {
	Tier     string // quick | thorough
	Shard    int
	OutFile  string // stats JSON (written at the end)
	FailFile string // structured failing case (rewritten on every failing execution; the last one is the shrunk one)
	Journal  string // case about to be executed (for process-killing failures)
	History  string // the last historyLen executed cases, written at the first failure (for failures that depend on earlier calls)
	CaseSecs float64
	HeapMiB  uint64
}

var cfg = loadEnv()

func loadEnv() envCfg {
	perProcess := func(s string) string { return strings.ReplaceAll(s, "%p", strconv.Itoa(os.Getpid())) }
	c := envCfg{
		Tier:     getenv("VERIF_TIER", "quick"),
		OutFile:  perProcess(os.Getenv("VERIF_OUT")),
		FailFile: os.Getenv("VERIF_FAILCASE"),
		Journal:  perProcess(os.Getenv("VERIF_JOURNAL")), // %p = pid: native fuzzing runs several worker processes
		History:  os.Getenv("VERIF_HISTORY"),
		CaseSecs: 180,
		HeapMiB:  2048,
	}
	c.Shard, _ = strconv.Atoi(getenv("VERIF_SHARD", "0"))
	if v := os.Getenv("VERIF_CASE_SECS"); v != "" {
		c.CaseSecs, _ = strconv.ParseFloat(v, 64)
	}
	if v := os.Getenv("VERIF_HEAP_MIB"); v != "" {
		c.HeapMiB, _ = strconv.ParseUint(v, 10, 64)
	}
	return c
}

func getenv(k, d string) string {
	if v := os.Getenv(k); v != "" {
		return v
	}
	return d
}

func thorough() bool { return cfg.Tier == "thorough" }

// strictKnown: set by the driver when it replays the inputs listed in known_findings.json: oracles that normally count
// (rather than fail) a case with the signature of a known finding then fail on it, so the driver can tell whether the
// listed input still misbehaves.
func strictKnown() bool { return os.Getenv("VERIF_STRICT_KNOWN") == "1" }

// ---------------------------------------------------------------------------------------------------------
// Watchdog: per-case wall clock and heap budget. A hit dumps all goroutine stacks and exits with code 3
// (the driver then re-runs the journalled case alone before calling anything a violation).

// The watchdog measures with the MONOTONIC clock (nanoseconds since processStart): in this sandbox the wall clock
// jumped forward several times (VM snapshots), which made every running shard "exceed" its per-case budget at once.
var (
	processStart = time.Now()
	caseStartNs  atomic.Int64 // monotonic ns since processStart, +1; 0 = no case running
	wdOnce       sync.Once
)

func monoNow() int64 { return int64(time.Since(processStart)) + 1 }

func startWatchdog() {
	wdOnce.Do(func() {
		debug.SetMaxStack(64 << 20) // runaway recursion dies quickly with "stack overflow" (exit 2)
		go func() {
			sample := []metrics.Sample{{Name: "/memory/classes/heap/objects:bytes"}}
			for {
				time.Sleep(20 * time.Millisecond)
				st := caseStartNs.Load()
				if st == 0 {
					continue
				}
				metrics.Read(sample)
				heap := sample[0].Value.Uint64()
				el := time.Duration(monoNow() - st)
				var why string
				if heap > cfg.HeapMiB<<20 {
					why = fmt.Sprintf("heap budget exceeded: %d MiB live > %d MiB", heap>>20, cfg.HeapMiB)
				} else if el.Seconds() > cfg.CaseSecs {
					why = fmt.Sprintf("wall-clock budget exceeded: %v > %vs", el, cfg.CaseSecs)
				}
				if why != "" {
					buf := make([]byte, 1<<20)
					n := runtime.Stack(buf, true)
					fmt.Fprintf(os.Stderr, "\nVERIF-WATCHDOG: %s\n%s\n", why, buf[:n])
					os.Exit(3)
				}
			}
		}()
	})
}

var (
	journalFile *os.File
	journalOnce sync.Once
	slowMu      sync.Mutex
	slowest     time.Duration
	slowestCase json.RawMessage
	totalCase   time.Duration
)

// beginCase journals the case about to run (one pwrite into a pre-opened file: a 20-byte length header
// followed by the JSON; no truncation needed) and arms the watchdog.
// tolUnit: the length that the "1" in relative tolerances 1e-9*(1+|a|+|b|) stands for. 1 for layouts in pixel-like
// units; the case's largest size or spacing when that is below 1 (a drawing in units of 2^-30 has all its coordinates
// below 1e-6: an absolute floor of 1e-9 would make every comparison pass). Set by Case.RunOpts, reset per case.
var tolUnitBits atomic.Uint64

func tolUnit() float64 {
	if b := tolUnitBits.Load(); b != 0 {
		return math.Float64frombits(b)
	}
	return 1
}

func setTolUnit(u float64) {
	if u > 0 && u < 1 {
		tolUnitBits.Store(math.Float64bits(u))
	} else {
		tolUnitBits.Store(0)
	}
}

func beginCase(propID string, c any) {
	tolUnitBits.Store(0)
	var raw json.RawMessage
	if cfg.Journal != "" || cfg.History != "" {
		raw = mustRaw(c)
	}
	if cfg.History != "" && !historyWritten {
		if len(histRing) == historyLen {
			copy(histRing, histRing[1:])
			histRing = histRing[:historyLen-1]
		}
		histRing = append(histRing, raw)
	}
	if cfg.Journal != "" {
		journalOnce.Do(func() { journalFile, _ = os.OpenFile(cfg.Journal, os.O_CREATE|os.O_RDWR|os.O_TRUNC, 0o644) })
		if journalFile != nil {
			b, _ := json.Marshal(envelope{Property: propID, Case: raw})
			buf := append([]byte(fmt.Sprintf("%19d\n", len(b))), b...)
			_, _ = journalFile.WriteAt(buf, 0)
		}
	}
	caseStartNs.Store(monoNow())
	// driver self-test only: die like a watchdog hit, once per marker file (exercises the "death that does not reproduce" path)
	if marker := os.Getenv("VERIF_TEST_DIE_ONCE"); marker != "" {
		if _, err := os.Stat(marker + "." + strconv.Itoa(cfg.Shard)); err != nil && os.Getenv("VERIF_REPLAY") == "" {
			_ = os.WriteFile(marker+"."+strconv.Itoa(cfg.Shard), []byte("x"), 0o644)
			fmt.Fprintln(os.Stderr, "VERIF-WATCHDOG: simulated death (VERIF_TEST_DIE_ONCE)")
			os.Exit(3)
		}
	}
}

// History: a failure may depend on the calls made earlier in the same process (state that leaks from one Layout call into
// the next - seeded/r4-m02 made WithOutputVirtualNodes(true) stick for later calls). Such a case passes when replayed
// alone, so the harness keeps the last historyLen executed cases and writes them out at the FIRST failing execution; the
// driver replays that sequence in one fresh process, minimises it, and only then calls it a violation.
const historyLen = 64

var (
	histRing       []json.RawMessage
	historyWritten bool
)

func writeHistory(propID string) {
	if cfg.History == "" || historyWritten {
		return
	}
	historyWritten = true
	b, _ := json.Marshal(envelope{Property: propID, History: histRing})
	_ = os.WriteFile(cfg.History, b, 0o644)
	histRing = nil
}

func endCase() {
	st := caseStartNs.Swap(0)
	d := time.Duration(monoNow() - st)
	slowMu.Lock()
	totalCase += d
	slowMu.Unlock()
}

// noteSlow remembers the slowest case (reported in the evidence as a calibration of the C01 budget)
func noteSlow(d time.Duration, c any) {
	slowMu.Lock()
	if d > slowest {
		slowest = d
		slowestCase = mustRaw(c)
	}
	slowMu.Unlock()
}

// ---------------------------------------------------------------------------------------------------------
// Replay envelope

type envelope struct {
	Property string          `json:"property"`
	Case     json.RawMessage `json:"case"`
	// History: cases to execute (outcomes ignored) in the same process BEFORE Case - a failure that depends on earlier calls
	History []json.RawMessage `json:"history,omitempty"`
	Error   string            `json:"error,omitempty"`
	Note    string            `json:"note,omitempty"`
}

func mustRaw(c any) json.RawMessage {
	b, err := json.Marshal(c)
	if err != nil {
		panic(err)
	}
	return b
}

func writeFailCase(propID string, c any, err error) {
	if cfg.FailFile == "" {
		return
	}
	b, _ := json.MarshalIndent(envelope{Property: propID, Case: mustRaw(c), Error: err.Error()}, "", " ")
	_ = os.WriteFile(cfg.FailFile, b, 0o644)
}

// ---------------------------------------------------------------------------------------------------------
// Statistics -> evidence

type Stats struct {
	mu         sync.Mutex
	Property   string
	Evals      int64
	NonTrivial int64
	Distinct   map[uint64]struct{}
	Classes    map[string]int64
	Samples    []json.RawMessage
	Excluded   map[string]int64 // known-finding classes excluded by construction
	Rule       string
	Extra      map[string]any
	Failures   int64
}

func newStats(id, rule string) *Stats {
	return &Stats{Property: id, Rule: rule, Distinct: map[uint64]struct{}{}, Classes: map[string]int64{}, Excluded: map[string]int64{}, Extra: map[string]any{}}
}

func hash64(b []byte) uint64 {
	h := fnv.New64a()
	h.Write(b)
	return h.Sum64()
}

// Outcome is what an oracle reports about one case.
type Outcome struct {
	NonTrivial bool
	Classes    []string
	Err        error
}

func (o *Outcome) class(s string) { o.Classes = append(o.Classes, s) }
func (o *Outcome) classIf(b bool, s string) {
	if b {
		o.Classes = append(o.Classes, s)
	}
}
func (o *Outcome) failf(f string, a ...any) *Outcome {
	if o.Err == nil {
		o.Err = fmt.Errorf(f, a...)
	}
	return o
}

func (s *Stats) record(c any, o *Outcome) {
	s.mu.Lock()
	defer s.mu.Unlock()
	s.Evals++
	for _, cl := range o.Classes {
		s.Classes[cl]++
	}
	if o.Err != nil {
		s.Failures++
	}
	if o.NonTrivial {
		s.NonTrivial++
		raw := mustRaw(c)
		h := hash64(raw)
		if _, ok := s.Distinct[h]; !ok {
			s.Distinct[h] = struct{}{}
			if len(s.Samples) < 4 && len(raw) < 6000 {
				s.Samples = append(s.Samples, raw)
			}
		}
	}
}

func (s *Stats) exclude(class string) {
	s.mu.Lock()
	s.Excluded[class]++
	s.mu.Unlock()
}

type statsOut struct {
	Property   string            `json:"property"`
	Shard      int               `json:"shard"`
	Tier       string            `json:"tier"`
	Evals      int64             `json:"evaluations"`
	NonTrivial int64             `json:"nontrivial"`
	Distinct   []string          `json:"distinct_hashes"`
	Classes    map[string]int64  `json:"classes"`
	Excluded   map[string]int64  `json:"known_findings_excluded"`
	Samples    []json.RawMessage `json:"samples"`
	Rule       string            `json:"rule"`
	Extra      map[string]any    `json:"extra,omitempty"`
	Failures   int64             `json:"failures"`
	Exhaustive bool              `json:"exhaustive,omitempty"`
}

func (s *Stats) write(exhaustive bool) {
	if cfg.OutFile == "" {
		return
	}
	s.mu.Lock()
	defer s.mu.Unlock()
	hs := make([]string, 0, len(s.Distinct))
	for h := range s.Distinct {
		hs = append(hs, strconv.FormatUint(h, 16))
	}
	sort.Strings(hs)
	slowMu.Lock()
	s.Extra["slowest_case_s"] = slowest.Seconds()
	if len(slowestCase) >= 4000 && cfg.OutFile != "" && os.Getenv("VERIF_KEEP_SLOWEST") != "" {
		_ = os.WriteFile(cfg.OutFile+".slowest.json", slowestCase, 0o644) // development aid: a big slow case
	}
	if len(slowestCase) < 4000 {
		s.Extra["slowest_case"] = slowestCase
	}
	s.Extra["oracle_time_total_s"] = totalCase.Seconds()
	slowMu.Unlock()
	out := statsOut{Property: s.Property, Shard: cfg.Shard, Tier: cfg.Tier, Evals: s.Evals, NonTrivial: s.NonTrivial,
		Distinct: hs, Classes: s.Classes, Excluded: s.Excluded, Samples: s.Samples, Rule: s.Rule, Extra: s.Extra,
		Failures: s.Failures, Exhaustive: exhaustive}
	b, _ := json.Marshal(out)
	_ = os.WriteFile(cfg.OutFile, b, 0o644)
}

// ---------------------------------------------------------------------------------------------------------
// Property definition and the two ways of running one: generated (rapid) and replay (plain)

type Property struct {
	ID    string
	Rule  string
	New   func() any                      // empty case value for JSON decoding
	Gen   func(rt *rapid.T, s *Stats) any // draws a case (every random choice is a rapid draw)
	Check func(c any) *Outcome            // the oracle; pure function of the case and the code under test
}

var registry = map[string]*Property{}

func register(p *Property) *Property {
	registry[p.ID] = p
	return p
}

// runGenerated drives p with rapid. The number of cases is rapid's -rapid.checks flag.
func runGenerated(t *testing.T, p *Property) {
	startWatchdog()
	st := newStats(p.ID, p.Rule)
	defer st.write(false)
	var firstFailure time.Time
	shrinkBudget := time.Duration(envFloat("VERIF_SHRINK_SECS", 90) * float64(time.Second))
	rapid.Check(t, func(rt *rapid.T) {
		c := p.Gen(rt, st)
		if !firstFailure.IsZero() && time.Since(firstFailure) > shrinkBudget {
			// rapid only looks at its shrink deadline between shrink steps, and one step can run many expensive cases.
			// Once the budget is spent every further candidate is declared passing without being run: rapid then keeps
			// the smallest failing case found so far, which is the one already written to the fail file.
			return
		}
		beginCase(p.ID, c)
		t0 := time.Now()
		o := p.Check(c)
		noteSlow(time.Since(t0), c)
		endCase()
		st.record(c, o)
		if o.Err != nil {
			if firstFailure.IsZero() {
				firstFailure = time.Now()
				writeHistory(p.ID) // the failing case is the last entry
			}
			writeFailCase(p.ID, c, o.Err)
			rt.Fatalf("property %s violated: %v\ncase: %s", p.ID, o.Err, mustRaw(c))
		}
	})
}

func envFloat(k string, d float64) float64 {
	if v := os.Getenv(k); v != "" {
		if f, err := strconv.ParseFloat(v, 64); err == nil {
			return f
		}
	}
	return d
}

// fuzzTarget drives the same generator + oracle with Go's native coverage-guided fuzzer (secondary engine, thorough
// tier only, time-boxed): the fuzzer's bytes are the bit stream rapid's generators draw from (rapid.MakeFuzz), so every
// input is a structured case. A failing execution writes the structured case to the fail file exactly like the rapid
// runs; the driver believes it only after the plain replay path fails on it too.
func fuzzTarget(f *testing.F, p *Property) {
	startWatchdog()
	st := newStats(p.ID, p.Rule)
	// a few deterministic pseudo-random seeds next to the empty input (which decodes to the minimal case)
	x := uint64(0x9E3779B97F4A7C15)
	for _, n := range []int{64, 256, 1024, 4096} {
		b := make([]byte, n)
		for i := range b {
			x ^= x << 13
			x ^= x >> 7
			x ^= x << 17
			b[i] = byte(x >> 32)
		}
		f.Add(b)
	}
	f.Add([]byte{})
	f.Fuzz(rapid.MakeFuzz(func(rt *rapid.T) {
		c := p.Gen(rt, st)
		beginCase(p.ID, c)
		o := p.Check(c)
		endCase()
		if o.Err != nil {
			writeFailCase(p.ID, c, o.Err)
			rt.Fatalf("property %s violated: %v\ncase: %s", p.ID, o.Err, mustRaw(c))
		}
	}))
}

// runCase checks one decoded case outside rapid (corpus, replay, exhaustive enumerations).
func runCase(p *Property, c any, st *Stats) *Outcome {
	beginCase(p.ID, c)
	o := p.Check(c)
	endCase()
	if st != nil {
		st.record(c, o)
	}
	return o
}

func ptr[T any](v T) *T { return &v }
