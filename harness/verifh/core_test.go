// Package verifh is the API-level part of the /verif harness. It is copied into a scratch copy of the
// nulab/autog module (directory verifh/) by /verif/check and compiled there with `-tags verif`, so that it
// can import the module's internal packages (hook variables). Nothing in here is part of nulab/autog.
package verifh

import (
	"encoding/json"
	"fmt"
	"math"
	"sort"

	"github.com/nulab/autog"
	"github.com/nulab/autog/graph"
	"github.com/nulab/autog/internal/phase1"
	"github.com/nulab/autog/internal/phase3"
)

// ---------------------------------------------------------------------------------------------------------
// Case: one input of autog.Layout, fully structured and JSON-serialisable (this is the replay format).

type Sz struct {
	W, H float64
}

const (
	CBGreedy = iota
	CBGreedyRandom
	CBDepthFirst
)

const (
	LayNS = iota
	LayLP
)

const (
	PosSink = iota
	PosVAlign
	PosPackRight
	PosNS
	PosBK
)

const (
	RtPolyline = iota
	RtStraight
	RtOrtho
	RtSplines
	RtNoop
)

const (
	SzNone = iota
	SzFixed
	SzPerNode
	SzFixedPerNode
)

type Case struct {
	Edges      [][2]string           `json:"edges"`
	CB         int                   `json:"cb"`                    // CBGreedy | CBGreedyRandom | CBDepthFirst
	GreedySeed int64                 `json:"greedy_seed,omitempty"` // hook H1; only with CBGreedyRandom
	Lay        int                   `json:"lay"`                   // LayNS | LayLP
	Pos        int                   `json:"pos"`                   // Pos*
	BK         *int                  `json:"bk,omitempty"`          // WithBrandesKoepfLayout value (only with PosBK; nil = option not passed)
	Rt         int                   `json:"rt"`                    // Rt*
	Thorough   *uint                 `json:"thorough,omitempty"`    // nil = option not passed (default 28)
	Virt       bool                  `json:"virt,omitempty"`        // WithOutputVirtualNodes(true)
	SzMode     int                   `json:"szmode"`                // Sz*
	Fixed      Sz                    `json:"fixed,omitempty"`
	Sizes      map[string]Sz         `json:"sizes,omitempty"`
	OptStyle   int                   `json:"optstyle,omitempty"` // how the SAME configuration is spelled as an option list: see Options
	SizeXY     int                   `json:"size_xy,omitempty"`  // what the X/Y fields of the size map's graph.Size values hold: 0 zero, 1/2 junk (see SizeMap)
	Ord        int                   `json:"ord,omitempty"`      // 0 = OrderingWMedian (default), 1 = OrderingNoop (public option; only C16 draws it)
	Near       []NearVar             `json:"near,omitempty"`     // near-duplicate inputs laid out in the same process (only C07 draws them)
	lastDecoy  map[string]graph.Size // the decoy size map handed out by the last Options call (style 3), for C07
	NS         *float64              `json:"ns,omitempty"` // nil = option not passed (default 60)
	LS         *float64              `json:"ls,omitempty"` // nil = option not passed (default 150)
}

// NearVar describes an input that differs from its base case by a hair: one node's width, the NodeSpacing or the
// LayerSpacing grows by Delta (1e-9 .. 0.0049). Two such inputs are different arguments and have their own results;
// anything that remembers results across calls under a lossy key (rounded, formatted with %.2f, hashed from a
// truncated value) hands one of them the other's. seeded/r6-m07 memoised geom.Shortest under fmt.Sprint of its
// arguments, and geom.Rect's String method prints two decimals.
type NearVar struct {
	Kind  int     `json:"kind"` // 0 width of Node, 1 NodeSpacing, 2 LayerSpacing
	Node  string  `json:"node,omitempty"`
	Delta float64 `json:"delta"`
}

func (c *Case) WithNear(v NearVar) *Case {
	d := c.Clone()
	d.Near = nil
	switch v.Kind {
	case 0:
		s := d.ConfiguredSize(v.Node)
		s.W += v.Delta
		if d.Sizes == nil {
			d.Sizes = map[string]Sz{}
		}
		d.Sizes[v.Node] = s
		switch d.SzMode {
		case SzNone:
			d.SzMode = SzPerNode
		case SzFixed:
			d.SzMode = SzFixedPerNode
		}
	case 1:
		d.NS = ptr(d.NodeSpacing() + v.Delta)
	default:
		d.LS = ptr(d.LayerSpacing() + v.Delta)
	}
	return d
}

// unit: the largest size or spacing of the case (see tolUnit)
func (c *Case) unit() float64 {
	u := math.Max(c.NodeSpacing(), c.LayerSpacing())
	if c.SzMode == SzFixed || c.SzMode == SzFixedPerNode {
		u = math.Max(u, math.Max(c.Fixed.W, c.Fixed.H))
	}
	if c.SzMode == SzPerNode || c.SzMode == SzFixedPerNode {
		for _, v := range c.Sizes {
			u = math.Max(u, math.Max(v.W, v.H))
		}
	}
	return u
}

func (c *Case) JSON() string {
	b, err := json.Marshal(c)
	if err != nil {
		panic(err)
	}
	return string(b)
}

func (c *Case) Clone() *Case {
	d := *c
	d.Edges = append([][2]string(nil), c.Edges...)
	d.Near = append([]NearVar(nil), c.Near...)
	if c.Sizes != nil {
		d.Sizes = make(map[string]Sz, len(c.Sizes))
		for k, v := range c.Sizes {
			d.Sizes[k] = v
		}
	}
	if c.BK != nil {
		v := *c.BK
		d.BK = &v
	}
	if c.Thorough != nil {
		v := *c.Thorough
		d.Thorough = &v
	}
	if c.NS != nil {
		v := *c.NS
		d.NS = &v
	}
	if c.LS != nil {
		v := *c.LS
		d.LS = &v
	}
	return &d
}

func (c *Case) NodeSpacing() float64 {
	if c.NS == nil {
		return 60
	}
	return *c.NS
}

func (c *Case) LayerSpacing() float64 {
	if c.LS == nil {
		return 150
	}
	return *c.LS
}

// ConfiguredSize is the size C02 says a node must carry: per-node if listed, else fixed, else zero.
func (c *Case) ConfiguredSize(id string) Sz {
	if c.SzMode == SzPerNode || c.SzMode == SzFixedPerNode {
		if s, ok := c.Sizes[id]; ok {
			return s
		}
	}
	if c.SzMode == SzFixed || c.SzMode == SzFixedPerNode {
		return c.Fixed
	}
	return Sz{}
}

func (c *Case) EdgeSlice() graph.EdgeSlice {
	es := make([][]string, len(c.Edges))
	for i, e := range c.Edges {
		es[i] = []string{e[0], e[1]}
	}
	return graph.EdgeSlice(es)
}

func (c *Case) SizeMap() map[string]graph.Size {
	if c.Sizes == nil {
		return nil
	}
	m := make(map[string]graph.Size, len(c.Sizes))
	for k, v := range c.Sizes {
		m[k] = graph.Size{W: v.W, H: v.H}
	}
	// graph.Size also has X and Y. WithNodeSize documents that it sets a SIZE: whatever a caller leaves in X/Y (sizes
	// copied from the nodes of an earlier layout, or from its own bounding boxes) must not matter (seeded/r5-m03 let it
	// through to the top layer's y). The junk is a deterministic function of the sorted key order.
	if c.SizeXY != 0 {
		keys := make([]string, 0, len(m))
		for k := range m {
			keys = append(keys, k)
		}
		sort.Strings(keys)
		for i, k := range keys {
			v := m[k]
			if c.SizeXY == 1 {
				v.X, v.Y = float64(100*i), float64(150*(i%3)+75) // as if copied from an earlier layout
			} else {
				v.X, v.Y = -33.3*float64(i+1), 1e4+0.5*float64(i)
			}
			m[k] = v
		}
	}
	return m
}

// Options translates the case into the public functional options. Every option writes its own field of the configuration,
// so the same configuration can be spelled in several ways; OptStyle picks one (the result must not depend on it):
//
//	0 canonical: defaults are left out, fixed order
//	1 defaults spelled out (WithCycleBreaking(Greedy), WithLayering(NetworkSimplex), WithOrdering(WMedian), WithOutputVirtualNodes(false) ...)
//	2 the canonical list in reverse order (e.g. WithNodeSize before WithNodeFixedSize: the map still wins, as documented)
//	3 style 1 preceded by a decoy - a different value - for every setting that is then set explicitly (the last one wins);
//	  for size maps the decoy is a sub-map with the same values (DecoySizes), which makes no assumption about repeated WithNodeSize
func (c *Case) Options(sizes map[string]graph.Size) []autog.Option {
	o := c.canonicalOptions(sizes)
	switch c.OptStyle {
	case 1:
		o = append(c.explicitDefaults(), o...)
	case 2:
		for i, j := 0, len(o)-1; i < j; i, j = i+1, j-1 {
			o[i], o[j] = o[j], o[i]
		}
	case 3:
		o = append(c.explicitDefaults(), o...)
		o = append(c.decoys(), o...)
		if (c.SzMode == SzPerNode || c.SzMode == SzFixedPerNode) && sizes != nil {
			c.lastDecoy = DecoySizes(sizes)
			o = append([]autog.Option{autog.WithNodeSize(c.lastDecoy)}, o...)
		}
	}
	return o
}

// explicitDefaults: the options the canonical spelling leaves out because they are the defaults
func (c *Case) explicitDefaults() []autog.Option {
	var o []autog.Option
	if c.CB == CBGreedy {
		o = append(o, autog.WithCycleBreaking(autog.CycleBreakingGreedy))
	}
	if c.Lay == LayNS {
		o = append(o, autog.WithLayering(autog.LayeringNetworkSimplex))
	}
	if c.Ord == 0 {
		o = append(o, autog.WithOrdering(autog.OrderingWMedian))
	}
	if !c.Virt {
		o = append(o, autog.WithOutputVirtualNodes(false))
	}
	return o
}

// decoys: other values for settings that explicitDefaults + canonicalOptions then set again
func (c *Case) decoys() []autog.Option {
	o := []autog.Option{
		autog.WithCycleBreaking([]phase1.Alg{autog.CycleBreakingDepthFirst, autog.CycleBreakingDepthFirst, autog.CycleBreakingGreedy}[c.CB]),
		autog.WithOrdering([]phase3.Alg{autog.OrderingNoop, autog.OrderingWMedian}[c.Ord]),
		autog.WithPositioning(autog.PositioningNoop),
		autog.WithEdgeRouting(autog.EdgeRoutingNoop),
		autog.WithOutputVirtualNodes(!c.Virt),
	}
	if c.Lay == LayNS {
		o = append(o, autog.WithLayering(autog.LayeringLongestPath))
	} else {
		o = append(o, autog.WithLayering(autog.LayeringNetworkSimplex))
	}
	if c.Thorough != nil {
		o = append(o, autog.WithNetworkSimplexThoroughness(*c.Thorough+5))
	}
	if c.Pos == PosBK && c.BK != nil {
		o = append(o, autog.WithBrandesKoepfLayout((*c.BK+1)%4))
	}
	if c.SzMode == SzFixed || c.SzMode == SzFixedPerNode {
		o = append(o, autog.WithNodeFixedSize(c.Fixed.H+3, c.Fixed.W+7))
	}
	if c.NS != nil {
		o = append(o, autog.WithNodeSpacing(*c.NS+12.5))
	}
	if c.LS != nil {
		o = append(o, autog.WithLayerSpacing(*c.LS+33))
	}
	return o
}

func (c *Case) canonicalOptions(sizes map[string]graph.Size) []autog.Option {
	var o []autog.Option
	switch c.CB {
	case CBGreedy:
		// default; pass explicitly half of the time? no: keep the translation a pure function of the case
	case CBGreedyRandom:
		o = append(o, autog.WithCycleBreaking(autog.CycleBreakingGreedy), autog.WithNonDeterministicGreedyCycleBreaker())
	case CBDepthFirst:
		o = append(o, autog.WithCycleBreaking(autog.CycleBreakingDepthFirst))
	}
	switch c.Lay {
	case LayNS:
	case LayLP:
		o = append(o, autog.WithLayering(autog.LayeringLongestPath))
	}
	if c.Ord == 1 {
		o = append(o, autog.WithOrdering(autog.OrderingNoop))
	}
	switch c.Pos {
	case PosSink:
		o = append(o, autog.WithPositioning(autog.PositioningSinkColoring))
	case PosVAlign:
		o = append(o, autog.WithPositioning(autog.PositioningVAlign))
	case PosPackRight:
		o = append(o, autog.WithPositioning(autog.PositioningPackRight))
	case PosNS:
		o = append(o, autog.WithPositioning(autog.PositioningNetworkSimplex))
	case PosBK:
		o = append(o, autog.WithPositioning(autog.PositioningBrandesKoepf))
		if c.BK != nil {
			o = append(o, autog.WithBrandesKoepfLayout(*c.BK))
		}
	}
	switch c.Rt {
	case RtPolyline:
		o = append(o, autog.WithEdgeRouting(autog.EdgeRoutingPolyline))
	case RtStraight:
		o = append(o, autog.WithEdgeRouting(autog.EdgeRoutingStraight))
	case RtOrtho:
		o = append(o, autog.WithEdgeRouting(autog.EdgeRoutingOrtho))
	case RtSplines:
		o = append(o, autog.WithEdgeRouting(autog.EdgeRoutingSplines))
	case RtNoop:
		o = append(o, autog.WithEdgeRouting(autog.EdgeRoutingNoop))
	}
	if c.Thorough != nil {
		o = append(o, autog.WithNetworkSimplexThoroughness(*c.Thorough))
	}
	if c.Virt {
		o = append(o, autog.WithOutputVirtualNodes(true))
	}
	switch c.SzMode {
	case SzFixed:
		o = append(o, autog.WithNodeFixedSize(c.Fixed.W, c.Fixed.H))
	case SzPerNode:
		o = append(o, autog.WithNodeSize(sizes))
	case SzFixedPerNode:
		o = append(o, autog.WithNodeFixedSize(c.Fixed.W, c.Fixed.H), autog.WithNodeSize(sizes))
	}
	if c.NS != nil {
		o = append(o, autog.WithNodeSpacing(*c.NS))
	}
	if c.LS != nil {
		o = append(o, autog.WithLayerSpacing(*c.LS))
	}
	return o
}

// Run calls autog.Layout on fresh copies of the inputs. A panic is recovered and returned.
func (c *Case) Run(extra ...autog.Option) (l graph.Layout, perr any) {
	return c.RunWith(c.EdgeSlice(), c.SizeMap(), extra...)
}

func (c *Case) RunWith(src graph.Source, sizes map[string]graph.Size, extra ...autog.Option) (l graph.Layout, perr any) {
	defer func() {
		if r := recover(); r != nil {
			perr = r
		}
	}()
	if c.CB == CBGreedyRandom {
		phase1.VerifGreedySeed.Store(nonZeroSeed(c.GreedySeed))
		defer phase1.VerifGreedySeed.Store(0)
	}
	opts := append(c.Options(sizes), extra...)
	l = autog.Layout(src, opts...)
	return l, nil
}

// RunOpts calls autog.Layout with exactly the given option slice (the caller keeps ownership of the slice: C07 and C15
// look at it afterwards). A panic is recovered and returned.
func (c *Case) RunOpts(src graph.Source, opts []autog.Option) (l graph.Layout, perr any) {
	defer func() {
		if r := recover(); r != nil {
			perr = r
		}
	}()
	if c.CB == CBGreedyRandom {
		phase1.VerifGreedySeed.Store(nonZeroSeed(c.GreedySeed))
		defer phase1.VerifGreedySeed.Store(0)
	}
	setTolUnit(c.unit())
	l = autog.Layout(src, opts...)
	return l, nil
}

// DecoySizes: the map passed by an additional, EARLIER WithNodeSize option in option style 3. It lists every other key of
// the real map with the real value, so the configuration is the same whether a later WithNodeSize replaces an earlier one
// (as in the pinned code) or would be merged with it - no assumption about that is made. What the decoy is for: it is a
// second caller-owned map, and C07 checks that it comes back unmodified.
func DecoySizes(sizes map[string]graph.Size) map[string]graph.Size {
	keys := make([]string, 0, len(sizes))
	for k := range sizes {
		keys = append(keys, k)
	}
	sort.Strings(keys)
	d := map[string]graph.Size{}
	for i, k := range keys {
		if i%2 == 0 {
			d[k] = sizes[k]
		}
	}
	return d
}

func nonZeroSeed(s int64) int64 {
	if s == 0 {
		return 1
	}
	return s
}

// ---------------------------------------------------------------------------------------------------------
// Input-graph helpers (work on ID strings only; independent of the library's data structures)

func NodeIDs(es [][2]string) []string {
	seen := make(map[string]bool, len(es)*2)
	out := make([]string, 0, len(es)+1)
	for _, e := range es {
		for _, id := range e {
			if !seen[id] {
				seen[id] = true
				out = append(out, id)
			}
		}
	}
	return out
}

// Components returns, for every node ID, the index of its connected component (numbered by first appearance).
func Components(es [][2]string) (comp map[string]int, n int) {
	parent := map[string]string{}
	var find func(string) string
	find = func(x string) string {
		p, ok := parent[x]
		if !ok || p == x {
			parent[x] = x
			return x
		}
		r := find(p)
		parent[x] = r
		return r
	}
	for _, e := range es {
		a, b := find(e[0]), find(e[1])
		if a != b {
			parent[a] = b
		}
	}
	idx := map[string]int{}
	comp = map[string]int{}
	for _, id := range NodeIDs(es) {
		r := find(id)
		if _, ok := idx[r]; !ok {
			idx[r] = len(idx)
		}
		comp[id] = idx[r]
	}
	return comp, len(idx)
}

// IsAcyclic ignores self-loops.
func IsAcyclic(es [][2]string) bool {
	adj := map[string][]string{}
	for _, e := range es {
		if e[0] == e[1] {
			continue
		}
		adj[e[0]] = append(adj[e[0]], e[1])
	}
	state := map[string]int{}
	// iterative DFS (inputs may be 200+ nodes deep)
	type frame struct {
		u string
		i int
	}
	for _, root := range NodeIDs(es) {
		if state[root] != 0 {
			continue
		}
		st := []frame{{root, 0}}
		state[root] = 1
		for len(st) > 0 {
			f := &st[len(st)-1]
			if f.i < len(adj[f.u]) {
				v := adj[f.u][f.i]
				f.i++
				switch state[v] {
				case 1:
					return false
				case 0:
					state[v] = 1
					st = append(st, frame{v, 0})
				}
			} else {
				state[f.u] = 2
				st = st[:len(st)-1]
			}
		}
	}
	return true
}

// HasParallel reports whether two edges share an unordered node pair (parallel or antiparallel); self-loops don't count.
func HasParallel(es [][2]string) bool {
	seen := map[[2]string]bool{}
	for _, e := range es {
		if e[0] == e[1] {
			continue
		}
		if seen[[2]string{e[0], e[1]}] || seen[[2]string{e[1], e[0]}] {
			return true
		}
		seen[[2]string{e[0], e[1]}] = true
	}
	return false
}

func HasAntiparallel(es [][2]string) bool {
	seen := map[[2]string]bool{}
	for _, e := range es {
		if e[0] != e[1] {
			seen[e] = true
		}
	}
	for e := range seen {
		if seen[[2]string{e[1], e[0]}] {
			return true
		}
	}
	return false
}

func CountSelfLoops(es [][2]string) int {
	k := 0
	for _, e := range es {
		if e[0] == e[1] {
			k++
		}
	}
	return k
}

// ---------------------------------------------------------------------------------------------------------
// Output helpers

func near(a, b float64) bool { return math.Abs(a-b) <= 1e-9*(tolUnit()+math.Abs(a)+math.Abs(b)) }

func finite(x float64) bool { return !math.IsNaN(x) && !math.IsInf(x, 0) }

// View is an indexed view of a returned layout relative to the input case.
type View struct {
	C     *Case
	L     graph.Layout
	IDs   []string       // input node IDs
	Comp  map[string]int // input node -> component
	NComp int
	Real  map[string]graph.Node // returned node per input ID (first occurrence)
	Extra []graph.Node          // returned nodes that are not input nodes (helper nodes with Virt)
	Band  map[string]int        // band index of each input node within its component (rank of Y)
	BandY map[[2]int]float64    // (component, band) -> Y
	BandH map[[2]int]float64    // (component, band) -> max height of real nodes
	NBand map[int]int           // component -> number of bands
}

// NewView indexes a layout. It requires IDs that cannot collide with helper IDs when c.Virt is set
// (callers that use adversarial IDs do not use bands with Virt).
func NewView(c *Case, l graph.Layout) *View {
	v := &View{C: c, L: l}
	v.IDs = NodeIDs(c.Edges)
	v.Comp, v.NComp = Components(c.Edges)
	v.Real = map[string]graph.Node{}
	for _, n := range l.Nodes {
		if _, isInput := v.Comp[n.ID]; isInput {
			if _, dup := v.Real[n.ID]; !dup {
				v.Real[n.ID] = n
				continue
			}
		}
		v.Extra = append(v.Extra, n)
	}
	ys := map[int][]float64{}
	for _, id := range v.IDs {
		if n, ok := v.Real[id]; ok {
			ys[v.Comp[id]] = append(ys[v.Comp[id]], n.Y)
		}
	}
	v.Band = map[string]int{}
	v.BandY = map[[2]int]float64{}
	v.BandH = map[[2]int]float64{}
	v.NBand = map[int]int{}
	uniq := map[int][]float64{}
	for ci, y := range ys {
		sort.Float64s(y)
		var u []float64
		for _, val := range y {
			if len(u) == 0 || u[len(u)-1] != val {
				u = append(u, val)
			}
		}
		uniq[ci] = u
		v.NBand[ci] = len(u)
		for b, val := range u {
			v.BandY[[2]int{ci, b}] = val
		}
	}
	for _, id := range v.IDs {
		n, ok := v.Real[id]
		if !ok {
			continue
		}
		ci := v.Comp[id]
		b := sort.SearchFloat64s(uniq[ci], n.Y)
		v.Band[id] = b
		k := [2]int{ci, b}
		v.BandH[k] = math.Max(v.BandH[k], n.H)
	}
	return v
}

// AllReturned reports whether every input node came back (C02's business otherwise).
func (v *View) AllReturned() bool { return len(v.Real) == len(v.IDs) }

// Drawn returns, for every returned non-self-loop edge, the pair (upper, lower) by the ArrowHeadStart flag:
// the drawn orientation is the input direction unless the edge is flagged reversed.
type DrawnEdge struct {
	U, V string // drawn from U (upper) to V (lower)
	Idx  int    // index in L.Edges
}

func (v *View) Drawn() []DrawnEdge {
	var out []DrawnEdge
	for i, e := range v.L.Edges {
		if e.FromID == e.ToID {
			continue
		}
		if e.ArrowHeadStart {
			out = append(out, DrawnEdge{e.ToID, e.FromID, i})
		} else {
			out = append(out, DrawnEdge{e.FromID, e.ToID, i})
		}
	}
	return out
}

func describeLayout(l graph.Layout) string {
	s := ""
	for _, n := range l.Nodes {
		s += fmt.Sprintf("  node %q x=%v y=%v w=%v h=%v\n", n.ID, n.X, n.Y, n.W, n.H)
	}
	for _, e := range l.Edges {
		s += fmt.Sprintf("  edge %q->%q ahs=%v pts=%v\n", e.FromID, e.ToID, e.ArrowHeadStart, e.Points)
	}
	return s
}
