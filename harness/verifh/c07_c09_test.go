package verifh

import (
	"crypto/sha256"
	"encoding/hex"
	"encoding/json"
	"fmt"
	"github.com/nulab/autog"
	"math"
	"os"
	"reflect"
	"sort"
	"sync"
	"testing"

	"github.com/nulab/autog/graph"
	"pgregory.net/rapid"
)

// ---------------------------------------------------------------------------------------------------------
// C07 — deterministic and side-effect free

var propC07 = register(&Property{
	ID: "C07",
	Rule: "all graph families (unions, >=2 self-loops, antiparallel pairs, slack ties over-weighted) x all algorithm combinations except Greedy+random; 5 repeated calls in-process on the SAME source and size map " +
		"(also checks the inputs are unmodified: edge list, size map(s), and the option slice incl. its spare capacity) + every case's result digest compared with a second, fresh process; non-trivial = >=2 components or >=2 self-loops or an antiparallel pair or >=2 reversed edges",
	New:   func() any { return &Case{} },
	Gen:   func(rt *rapid.T, s *Stats) any { return genC07(rt, s) },
	Check: func(c any) *Outcome { return checkC07(c.(*Case)) },
})

func genC07(rt *rapid.T, st *Stats) *Case {
	maxN, maxM, _ := sizeRegime(rt, 930, 65, 5)
	n, ies, _ := genGraph(rt, GraphSpec{MaxN: maxN, MaxM: maxM, Families: []int{FamMulti, FamMulti, FamConn, FamMotif, FamMotif, FamDag, FamLadder, FamSimple, FamTree}, Union: true, SelfLoops: true, Parallel: true})
	// over-weight unions: add a second component in a third of the cases
	if chance(rt, "extra_component", 1, 3) {
		pn, pes := genFamily(rt, []int{FamMulti, FamMotif, FamConn}[pick(rt, "xfam", 3)], GraphSpec{MaxN: 6, MaxM: 9, SelfLoops: true, Parallel: true})
		for _, e := range pes {
			ies = append(ies, iedge{e[0] + n, e[1] + n})
		}
		n += pn
		ies = rapid.Permutation(ies).Draw(rt, "edge_order2")
	}
	ids := genIDs(rt, n, chance(rt, "adversarial_ids", 1, 8))
	c := &Case{Edges: toEdges(ies, func(i int) string { return ids[i] })}
	genOptions(rt, c, NodeIDs(c.Edges), OptSpec{CBs: detCB, Lays: allLay, Poss: posFor(n, len(ies), allPos), BKForced: true, Rts: allRt,
		Thorough: true, ThoroughLow: true, Virt: true, Sizes: 0, NSZero: true, LSZero: true, DefaultsOK: true})
	avoidK3(rt, c, st, false, []int{RtPolyline, RtStraight, RtOrtho, RtNoop})
	// near-duplicate inputs for the same process (see NearVar): in a quarter of the cases, half of the spline cases
	// (the spline router does the most geometry per call). Widths and NodeSpacing stay integers where the
	// NetworkSimplex positioner needs them for the spline-safe domain.
	if chance(rt, "near", 1, 4) || (c.Rt == RtSplines && chance(rt, "near_splines", 1, 3)) {
		ids := NodeIDs(c.Edges)
		for k := rapid.IntRange(1, 3).Draw(rt, "near_count"); k > 0; k-- {
			v := NearVar{Kind: pick(rt, "near_kind", 4), Delta: []float64{0.004, 0.001, 0.0049, 1e-6, 1e-9, 0.003}[pick(rt, "near_delta", 6)]}
			if v.Kind == 3 {
				v.Kind = 0 // widths twice as often as each spacing
			}
			if c.Rt == RtSplines && c.Pos == PosNS && v.Kind != 2 {
				v.Kind = 2
			}
			if v.Kind == 0 {
				v.Node = ids[pick(rt, "near_node", len(ids))]
			}
			c.Near = append(c.Near, v)
		}
	}
	return c
}

// digest log for the cross-process comparison: one line per executed case "<case hash> <result hash>"
var (
	digestMu   sync.Mutex
	digestFile *os.File
	digestOnce sync.Once
)

func logDigest(c any, result any) {
	path := os.Getenv("VERIF_DIGESTS")
	if path == "" {
		return
	}
	digestOnce.Do(func() { digestFile, _ = os.OpenFile(path, os.O_CREATE|os.O_WRONLY|os.O_TRUNC, 0o644) })
	if digestFile == nil {
		return
	}
	cb := mustRaw(c)
	rb, _ := json.Marshal(result)
	ch, rh := sha256.Sum256(cb), sha256.Sum256(rb)
	digestMu.Lock()
	fmt.Fprintf(digestFile, "%s %s\n", hex.EncodeToString(ch[:8]), hex.EncodeToString(rh[:16]))
	digestMu.Unlock()
	if want := os.Getenv("VERIF_DUMP_CASEHASH"); want != "" && want == hex.EncodeToString(ch[:8]) {
		b, _ := json.MarshalIndent(envelope{Property: "C07", Case: cb, Error: "result differs between two processes (same case, same code)"}, "", " ")
		_ = os.WriteFile(os.Getenv("VERIF_DUMP_TO"), b, 0o644)
	}
}

// sparseTwin: the second process of the cross-process comparison executes only every other case (by case hash). Both
// processes then have DIFFERENT call histories, so state that leaks from one Layout call into later calls with other
// inputs (a process-wide cell behind a pointer in the default options - seeded/r3-m15) shows up as a digest mismatch,
// which two processes replaying the identical sequence could never see.
func sparseTwinSkips(c *Case) bool {
	return os.Getenv("VERIF_C07_SPARSE") == "1" && hash64(mustRaw(c))%2 == 0
}

func checkC07(c *Case) *Outcome {
	o := &Outcome{}
	if sparseTwinSkips(c) {
		o.class("skipped_by_sparse_twin")
		return o
	}
	_, _, _, ncomp := structuralClasses(c, o)
	optionClasses(c, o)
	// near-duplicate inputs: the first process lays them out AFTER their base case, the sparse twin BEFORE it and in
	// reverse order; every one is its own entry in the digest log. In-process: each is deterministic by itself.
	runNear := func(vs []NearVar) *Outcome {
		for _, v := range vs {
			vc := c.WithNear(v)
			r1, perr := vc.Run()
			if perr != nil {
				return o.failf("Layout panicked on the near-duplicate input %+v: %v", v, perr)
			}
			logDigest(vc, r1)
			r2, _ := vc.Run()
			if !reflect.DeepEqual(r1, r2) {
				return o.failf("near-duplicate input %+v: the second call returned a different layout than the first:\n%s", v, diffLayouts(r1, r2))
			}
		}
		return nil
	}
	o.classIf(len(c.Near) > 0, "near_duplicates")
	if os.Getenv("VERIF_C07_SPARSE") == "1" {
		rev := append([]NearVar(nil), c.Near...)
		for i, j := 0, len(rev)-1; i < j; i, j = i+1, j-1 {
			rev[i], rev[j] = rev[j], rev[i]
		}
		if f := runNear(rev); f != nil {
			return f
		}
	}
	src := c.EdgeSlice()
	sizes := c.SizeMap()
	srcSnap := c.EdgeSlice()
	sizeSnap := c.SizeMap()
	// the option list is an argument too: it is handed over as a slice with spare capacity (nil in the spare slots), the
	// way `opts := append(common, extra...)` leaves it in a caller's hands, and must come back untouched
	base := c.Options(sizes)
	decoy := c.lastDecoy
	opts := make([]autog.Option, len(base), len(base)+3)
	copy(opts, base)
	codeOf := func(os []autog.Option) []uintptr {
		ps := make([]uintptr, len(os))
		for i, f := range os {
			ps[i] = reflect.ValueOf(f).Pointer()
		}
		return ps
	}
	optSnap := codeOf(opts)
	first, perr := c.RunOpts(src, opts)
	if perr != nil {
		return o.failf("Layout panicked: %v", perr)
	}
	logDigest(c, first)
	for i := 0; i < 4; i++ {
		again, perr := c.RunOpts(src, opts)
		if perr != nil {
			return o.failf("Layout panicked on repetition %d: %v", i+2, perr)
		}
		if !reflect.DeepEqual(first, again) {
			return o.failf("call %d returned a different layout than call 1:\n%s", i+2, diffLayouts(first, again))
		}
	}
	if !reflect.DeepEqual([][]string(src), [][]string(srcSnap)) {
		return o.failf("the caller's edge list was modified: %v, was %v", src, srcSnap)
	}
	if !reflect.DeepEqual(sizes, sizeSnap) {
		return o.failf("the caller's size map was modified: %v, was %v", sizes, sizeSnap)
	}
	if c.OptStyle == 3 && decoy != nil {
		if want := DecoySizes(sizeSnap); !reflect.DeepEqual(decoy, want) {
			return o.failf("the size map of the caller's first WithNodeSize option was modified: %v, was %v", decoy, want)
		}
		o.class("two_size_maps")
	}
	if !reflect.DeepEqual(codeOf(opts), optSnap) {
		return o.failf("the caller's option slice was modified (an option was replaced)")
	}
	for i, f := range opts[:cap(opts)][len(opts):] {
		if f != nil {
			return o.failf("Layout wrote into the spare capacity of the caller's option slice (slot %d beyond its length %d)", i, len(opts))
		}
	}
	if os.Getenv("VERIF_C07_SPARSE") != "1" {
		if f := runNear(c.Near); f != nil {
			return f
		}
		// and the base case once more, after its near-duplicates went through
		if len(c.Near) > 0 {
			again, _ := c.RunOpts(src, opts)
			if !reflect.DeepEqual(first, again) {
				return o.failf("after %d near-duplicate inputs were laid out, the base case returns a different layout than before:\n%s", len(c.Near), diffLayouts(first, again))
			}
		}
	}
	rev := 0
	for _, e := range first.Edges {
		if e.ArrowHeadStart {
			rev++
		}
	}
	o.NonTrivial = ncomp >= 2 || CountSelfLoops(c.Edges) >= 2 || HasAntiparallel(c.Edges) || rev >= 2
	return o
}

func diffLayouts(a, b graph.Layout) string {
	if len(a.Nodes) != len(b.Nodes) || len(a.Edges) != len(b.Edges) {
		return fmt.Sprintf("  %d nodes/%d edges vs %d nodes/%d edges", len(a.Nodes), len(a.Edges), len(b.Nodes), len(b.Edges))
	}
	for i := range a.Nodes {
		if a.Nodes[i] != b.Nodes[i] {
			return fmt.Sprintf("  node #%d: %+v vs %+v", i, a.Nodes[i], b.Nodes[i])
		}
	}
	for i := range a.Edges {
		if !reflect.DeepEqual(a.Edges[i], b.Edges[i]) {
			return fmt.Sprintf("  edge #%d: %+v vs %+v", i, a.Edges[i], b.Edges[i])
		}
	}
	return "  (equal)"
}

func TestC07(t *testing.T) { runGenerated(t, propC07) }

// ---------------------------------------------------------------------------------------------------------
// C08 — node IDs are opaque

type RenameCase struct {
	Base   *Case    `json:"base"`   // uses the plain IDs n0..n(k-1)
	Rename []string `json:"rename"` // Rename[i] is the new name of n<i>; injective
}

var propC08 = register(&Property{
	ID: "C08",
	Rule: "all graph families x all algorithm combinations x an injective renaming drawn from the adversarial alphabet (helper-like names V<n>/NE<n>, empty string, long/Unicode names), size map renamed along; " +
		"oracle: Layout(rename(G)) == rename(Layout(G)) exactly; non-trivial = the renamed graph contains a name that the layout actually mints for a helper (V<k> with k <= number of long-edge helpers, or NE<i> with i < #edges under the NetworkSimplex positioner)",
	New:   func() any { return &RenameCase{} },
	Gen:   func(rt *rapid.T, s *Stats) any { return genC08(rt, s) },
	Check: func(c any) *Outcome { return checkC08(c.(*RenameCase)) },
})

func genC08(rt *rapid.T, st *Stats) *RenameCase {
	maxN, maxM, _ := sizeRegime(rt, 950, 48, 2)
	n, ies, _ := genGraph(rt, GraphSpec{MaxN: maxN, MaxM: maxM, Families: allFam, Union: true, SelfLoops: true, Parallel: true})
	c := &Case{Edges: toEdges(ies, nid)}
	genOptions(rt, c, NodeIDs(c.Edges), OptSpec{CBs: allCB, Lays: allLay, Poss: posFor(n, len(ies), allPos), BKForced: true, Rts: allRt,
		Thorough: true, Virt: true, Sizes: 0, NSZero: true, LSZero: true, DefaultsOK: true})
	avoidK3(rt, c, st, false, []int{RtPolyline, RtStraight, RtOrtho, RtNoop})
	// renaming: helper-like names first (they are what the property is about), then the rest of the alphabet
	names := make([]string, n)
	used := map[string]bool{}
	pool := rapid.Permutation(iota_(len(advIDs))).Draw(rt, "pool_order")
	k := 0
	wantHelperLike := chance(rt, "helper_like", 4, 5)
	var composed []string
	if chance(rt, "composed_names", 1, 4) {
		composed = composedNames(rt) // token<sep>token names: distinct ID pairs with equal joined forms
		wantHelperLike = false
	}
	for i := 0; i < n; i++ {
		var name string
		switch {
		case i < len(composed):
			name = composed[i]
		case wantHelperLike && i < 3 && chance(rt, "hl", 2, 3):
			if rapid.Bool().Draw(rt, "v_or_ne") {
				name = fmt.Sprintf("V%d", rapid.IntRange(1, 6).Draw(rt, "vk"))
			} else {
				name = fmt.Sprintf("NE%d", rapid.IntRange(0, max(1, len(ies))).Draw(rt, "nek"))
			}
		case k < len(pool) && chance(rt, "adv", 1, 3):
			name = advIDs[pool[k]]
			k++
		default:
			name = fmt.Sprintf("r%d", i)
		}
		for used[name] {
			name = fmt.Sprintf("r%d_%d", i, len(used))
		}
		used[name] = true
		names[i] = name
	}
	// which node gets which name is a drawn permutation
	names = rapid.Permutation(names).Draw(rt, "name_assignment")
	return &RenameCase{Base: c, Rename: names}
}

func (rc *RenameCase) renamed() (*Case, map[string]string, error) {
	m := map[string]string{}
	seen := map[string]bool{}
	for i, nm := range rc.Rename {
		if seen[nm] {
			return nil, nil, fmt.Errorf("renaming is not injective")
		}
		seen[nm] = true
		m[nid(i)] = nm
	}
	c2 := rc.Base.Clone()
	for i, e := range rc.Base.Edges {
		a, ok1 := m[e[0]]
		b, ok2 := m[e[1]]
		if !ok1 || !ok2 {
			return nil, nil, fmt.Errorf("edge %v uses an ID outside n0..n%d", e, len(rc.Rename)-1)
		}
		c2.Edges[i] = [2]string{a, b}
	}
	if rc.Base.Sizes != nil {
		c2.Sizes = map[string]Sz{}
		for k, v := range rc.Base.Sizes {
			if nk, ok := m[k]; ok {
				c2.Sizes[nk] = v
			} else if !seen[k] {
				c2.Sizes[k] = v // a key that names no node stays a key that names no node
			}
		}
	}
	return c2, m, nil
}

func checkC08(rc *RenameCase) *Outcome {
	o := &Outcome{}
	c := rc.Base
	structuralClasses(c, o)
	optionClasses(c, o)
	c2, m, err := rc.renamed()
	if err != nil {
		return o.failf("bad case: %v", err)
	}
	l1, perr := c.Run()
	if perr != nil {
		return o.failf("Layout panicked on the base graph: %v", perr)
	}
	l2, perr := c2.Run()
	if perr != nil {
		return o.failf("Layout panicked on the renamed graph (renaming %v): %v", m, perr)
	}
	// rename(Layout(G))
	mapped := graph.Layout{}
	helpers := 0
	for _, n := range l1.Nodes {
		if nn, ok := m[n.ID]; ok {
			n.ID = nn
		} else {
			helpers++
		}
		mapped.Nodes = append(mapped.Nodes, n)
	}
	for _, e := range l1.Edges {
		e.FromID, e.ToID = m[e.FromID], m[e.ToID]
		mapped.Edges = append(mapped.Edges, e)
	}
	if !reflect.DeepEqual(mapped, l2) {
		return o.failf("layout of the renamed graph differs from the renamed layout (renaming %v):\n%s", m, diffLayouts(mapped, l2))
	}
	// non-trivial: a new name collides with a helper name that is really minted
	longHelpers := 0
	if c.Virt {
		longHelpers = helpers
	} else if c.LayerSpacing() > 0 {
		v := NewView(c, l1)
		for _, e := range l1.Edges {
			d := v.Band[e.FromID] - v.Band[e.ToID]
			if d < 0 {
				d = -d
			}
			if d > 1 {
				longHelpers += d - 1
			}
		}
	}
	for _, nm := range rc.Rename {
		var k int
		if _, err := fmt.Sscanf(nm, "V%d", &k); err == nil && helperLike.MatchString(nm) && k >= 1 && k <= longHelpers {
			o.NonTrivial = true
			o.class("collides_with_V_helper")
		}
		if _, err := fmt.Sscanf(nm, "NE%d", &k); err == nil && helperLike.MatchString(nm) && c.Pos == PosNS && k < len(c.Edges) {
			o.NonTrivial = true
			o.class("collides_with_NE_helper")
		}
	}
	return o
}

func TestC08(t *testing.T) { runGenerated(t, propC08) }

// ---------------------------------------------------------------------------------------------------------
// C09 — components independent, side by side

type UnionCase struct {
	Parts [][][2]string `json:"parts"` // every part is a connected edge list; IDs of different parts are disjoint
	Order []int         `json:"order"` // interleaving: Order[k] = part from which the k-th edge of the union is taken
	Opt   *Case         `json:"opt"`   // options (Edges is ignored / rebuilt)
}

var propC09 = register(&Property{
	ID: "C09",
	Rule: "disjoint unions of 2-4 connected parts (any family, a part may be a single self-looped node), edges interleaved by a drawn merge order x all algorithm combinations; " +
		"oracle: each part alone == restriction of the union's layout modulo one horizontal translation (order, sizes, Y, flags exact; X within 1e-9 relative) and, for size-aware positioners, part extents disjoint and >= NodeSpacing apart; " +
		"non-trivial = >=2 parts with >=3 nodes each, one of them cyclic or with a long edge",
	New:   func() any { return &UnionCase{} },
	Gen:   func(rt *rapid.T, s *Stats) any { return genC09(rt, s) },
	Check: func(c any) *Outcome { return checkC09(c.(*UnionCase)) },
})

// connectedFamily draws a connected graph
func genConnectedPart(rt *rapid.T, maxN, maxM int) (int, []iedge) {
	if chance(rt, "loner", 1, 10) {
		return 1, []iedge{{0, 0}}
	}
	fam := []int{FamConn, FamConn, FamMotif, FamTree, FamLadder}[pick(rt, "pfam", 5)]
	n, es := genFamily(rt, fam, GraphSpec{MaxN: maxN, MaxM: maxM, SelfLoops: true, Parallel: true})
	if fam == FamConn || fam == FamTree {
		// sprinkle self-loops and parallel copies
		k := rapid.IntRange(0, 2).Draw(rt, "extras")
		for i := 0; i < k; i++ {
			a := pick(rt, "xa", n)
			if rapid.Bool().Draw(rt, "xloop") {
				es = append(es, iedge{a, a})
			} else {
				es = append(es, es[pick(rt, "xcopy", len(es))])
			}
		}
	}
	// keep only the component of node es[0][0] (ladders and motifs are connected by construction; be safe)
	ces := toEdges(es, nid)
	comp, nc := Components(ces)
	if nc > 1 {
		var keep []iedge
		for i, e := range es {
			if comp[ces[i][0]] == 0 {
				keep = append(keep, e)
			}
		}
		es = keep
	}
	if len(es) > 1 {
		es = rapid.Permutation(es).Draw(rt, "part_edge_order")
	}
	return n, es
}

func genC09(rt *rapid.T, st *Stats) *UnionCase {
	parts := rapid.IntRange(2, 4).Draw(rt, "parts")
	uc := &UnionCase{}
	maxN, maxM := 8, 12
	if chance(rt, "bigger_parts", 1, 12) {
		maxN, maxM = 16, 26
	}
	total, totalM := 0, 0
	// rarely, one part is a big sparse component (33..44 nodes): size thresholds inside the code are only reachable there
	bigPart := -1
	if chance(rt, "big_sparse_part", 1, 40) {
		bigPart = pick(rt, "which_big", parts)
		maxN, maxM = 6, 8
	}
	// and more rarely one part is a thin giant (genThinGiant: 201..230 nodes here, so that the NetworkSimplex positioner
	// stays below a second): thresholds on a component's size, wherever it stands among the components
	giantPart := -1
	if bigPart < 0 && chance(rt, "giant_part", 1, 150) {
		giantPart = pick(rt, "which_giant", parts)
		maxN, maxM = 6, 8
	}
	for p := 0; p < parts; p++ {
		var n int
		var es []iedge
		if p == giantPart {
			n = rapid.IntRange(201, 230).Draw(rt, "giant_n")
			es = genThinGiant(rt, n)
		} else if p == bigPart {
			n = rapid.IntRange(33, 44).Draw(rt, "big_n")
			es = genConnN(rt, n, rapid.IntRange(0, 2).Draw(rt, "big_extra"))
		} else {
			n, es = genConnectedPart(rt, maxN, maxM)
		}
		total += n
		totalM += len(es)
		p := p
		uc.Parts = append(uc.Parts, toEdges(es, func(i int) string { return fmt.Sprintf("p%dn%d", p, i) }))
		for range es {
			uc.Order = append(uc.Order, p)
		}
	}
	uc.Order = rapid.Permutation(uc.Order).Draw(rt, "interleaving")
	uc.Opt = &Case{}
	uc.Opt.Edges = uc.unionEdges()
	poss := posFor(total, totalM, allPos)
	if bigPart >= 0 && total <= 48 && totalM <= total+3 {
		poss = []int{PosNS, PosNS, PosSink, PosVAlign, PosPackRight, PosBK} // the threshold cases are about the expensive positioner
	}
	if giantPart >= 0 {
		poss = []int{PosNS, PosNS, PosSink, PosVAlign, PosPackRight, PosBK}
	}
	genOptions(rt, uc.Opt, NodeIDs(uc.Opt.Edges), OptSpec{CBs: allCB, Lays: allLay, Poss: poss, BKForced: true, Rts: allRt,
		Thorough: true, Virt: true, Sizes: 0, NSZero: true, LSZero: true, DefaultsOK: true})
	avoidK3(rt, uc.Opt, st, false, []int{RtPolyline, RtStraight, RtOrtho, RtNoop})
	uc.Opt.Edges = nil
	return uc
}

func (uc *UnionCase) unionEdges() [][2]string {
	next := make([]int, len(uc.Parts))
	var out [][2]string
	for _, p := range uc.Order {
		if p < 0 || p >= len(uc.Parts) || next[p] >= len(uc.Parts[p]) {
			continue
		}
		out = append(out, uc.Parts[p][next[p]])
		next[p]++
	}
	for p := range uc.Parts { // tolerate hand-edited replay files
		out = append(out, uc.Parts[p][next[p]:]...)
	}
	return out
}

func checkC09(uc *UnionCase) *Outcome {
	o := &Outcome{}
	whole := uc.Opt.Clone()
	whole.Edges = uc.unionEdges()
	structuralClasses(whole, o)
	optionClasses(whole, o)
	o.classIf(whole.Virt, "virt")
	// well-formedness of the case (parts connected and disjoint)
	owner := map[string]int{}
	for p, es := range uc.Parts {
		if len(es) == 0 {
			return o.failf("bad case: empty part")
		}
		if _, nc := Components(es); nc != 1 {
			return o.failf("bad case: part %d is not connected", p)
		}
		for _, id := range NodeIDs(es) {
			if q, ok := owner[id]; ok && q != p {
				return o.failf("bad case: parts %d and %d share node %q", q, p, id)
			}
			owner[id] = p
		}
	}
	lw, perr := whole.Run()
	if perr != nil {
		return o.failf("Layout panicked on the union: %v", perr)
	}
	// the union's output, restricted per part. Helper nodes (virtual output) carry no part information in their IDs, so
	// they are compared as a multiset over all parts below.
	type ext struct{ lo, hi float64 }
	exts := make([]ext, len(uc.Parts))
	bigParts, interesting := 0, false
	var wantHelpers, gotHelpers []graph.Node
	for _, n := range lw.Nodes {
		if _, ok := owner[n.ID]; !ok {
			gotHelpers = append(gotHelpers, n)
		}
	}
	for p, es := range uc.Parts {
		alone := uc.Opt.Clone()
		alone.Edges = es
		if alone.Sizes != nil { // the size map is passed as is: entries of other parts name no node of this part
		}
		la, perr := alone.Run()
		if perr != nil {
			return o.failf("Layout panicked on part %d alone: %v", p, perr)
		}
		var rn []graph.Node
		for _, n := range lw.Nodes {
			if q, ok := owner[n.ID]; ok && q == p {
				rn = append(rn, n)
			}
		}
		var re []graph.Edge
		for _, e := range lw.Edges {
			if owner[e.FromID] == p {
				re = append(re, e)
			}
		}
		var an []graph.Node
		var ah []graph.Node
		for _, n := range la.Nodes {
			if _, ok := owner[n.ID]; ok {
				an = append(an, n)
			} else {
				ah = append(ah, n)
			}
		}
		if len(an) != len(rn) || len(la.Edges) != len(re) {
			return o.failf("part %d: %d nodes/%d edges alone, %d nodes/%d edges inside the union", p, len(an), len(la.Edges), len(rn), len(re))
		}
		dx := 0.0
		if len(an) > 0 {
			dx = rn[0].X - an[0].X
		}
		lo, hi := rn[0].X, rn[0].X+rn[0].W
		for i := range an {
			a, r := an[i], rn[i]
			if a.ID != r.ID || a.W != r.W || a.H != r.H || a.Y != r.Y || !near(a.X+dx, r.X) {
				return o.failf("part %d node #%d: alone %+v, in the union %+v (dx=%v)", p, i, a, r, dx)
			}
			lo, hi = min(lo, r.X), max(hi, r.X+r.W)
		}
		// a component's extent includes its routes: bends sit at the x of helper nodes, and a component is shifted past the
		// rightmost node of every layer of its predecessor, helper nodes included - whether or not they are output
		// (seeded/r6-m06 computed the shift from the output nodes only: bends then reach into the next component).
		// Stated for the piecewise-linear routings, whose points are node centres and helper positions.
		if whole.Rt == RtPolyline || whole.Rt == RtStraight || whole.Rt == RtOrtho {
			for _, e := range re {
				for _, pt := range e.Points {
					lo, hi = min(lo, pt[0]), max(hi, pt[0])
				}
			}
		}
		exts[p] = ext{lo, hi}
		for i := range la.Edges {
			a, r := la.Edges[i], re[i]
			if a.FromID != r.FromID || a.ToID != r.ToID || a.ArrowHeadStart != r.ArrowHeadStart || len(a.Points) != len(r.Points) {
				return o.failf("part %d edge #%d: alone %+v, in the union %+v", p, i, a, r)
			}
			for k := range a.Points {
				if a.Points[k][1] != r.Points[k][1] || !near(a.Points[k][0]+dx, r.Points[k][0]) {
					return o.failf("part %d edge #%d (%q->%q) point %d: alone %v, in the union %v (dx=%v)", p, i, a.FromID, a.ToID, k, a.Points[k], r.Points[k], dx)
				}
			}
		}
		for _, h := range ah {
			h.X += dx
			wantHelpers = append(wantHelpers, h)
		}
		// classification
		if len(an) >= 3 {
			bigParts++
			if !IsAcyclic(es) || len(ah) > 0 || hasLongEdge(alone, la) {
				interesting = true
			}
		}
	}
	// helper nodes: same multiset (ID, size, Y exact; X within tolerance)
	if len(wantHelpers) != len(gotHelpers) {
		return o.failf("%d helper nodes in the union's output, %d in the parts' outputs together", len(gotHelpers), len(wantHelpers))
	}
	key := func(ns []graph.Node) {
		sort.Slice(ns, func(i, j int) bool {
			a, b := ns[i], ns[j]
			if a.ID != b.ID {
				return a.ID < b.ID
			}
			if a.Y != b.Y {
				return a.Y < b.Y
			}
			return a.X < b.X
		})
	}
	key(wantHelpers)
	key(gotHelpers)
	for i := range wantHelpers {
		a, b := wantHelpers[i], gotHelpers[i]
		if a.ID != b.ID || a.Y != b.Y || a.W != b.W || a.H != b.H || !near(a.X, b.X) {
			return o.failf("helper nodes differ: parts give %+v, union gives %+v", a, b)
		}
	}
	// side by side: stated for size-aware positioners; the NetworkSimplex positioner is size-aware on its integer grid
	// only (C04's quantifier) - with fractional widths it rounds centre distances and a layer's last node need not be
	// its rightmost extent. (A first version asserted this for fractional sizes too: false alarm at VERIF_SEED=2, corrected.)
	if whole.Pos != PosBK && !(whole.Pos == PosNS && !integerGeometry(whole)) {
		ns := whole.NodeSpacing()
		for p := range exts {
			for q := p + 1; q < len(exts); q++ {
				a, b := exts[p], exts[q]
				t := 1e-9 * (tolUnit() + a.hi + b.hi + ns)
				if !(a.hi+ns <= b.lo+t || b.hi+ns <= a.lo+t) {
					return o.failf("x-extents of parts %d [%v,%v] and %d [%v,%v] are not disjoint and NodeSpacing %v apart", p, a.lo, a.hi, q, b.lo, b.hi, ns)
				}
			}
		}
	}
	o.NonTrivial = bigParts >= 2 && interesting
	return o
}

func TestC09(t *testing.T) { runGenerated(t, propC09) }

// integerGeometry: all configured widths and the NodeSpacing are integers (the NetworkSimplex positioner's domain)
func integerGeometry(c *Case) bool {
	if c.NodeSpacing() != math.Trunc(c.NodeSpacing()) {
		return false
	}
	for _, id := range NodeIDs(c.Edges) {
		if w := c.ConfiguredSize(id).W; w != math.Trunc(w) {
			return false
		}
	}
	return true
}
