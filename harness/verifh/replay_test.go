package verifh

import (
	"encoding/json"
	"os"
	"strings"
	"testing"
)

// TestReplay runs the oracle of the named property on saved cases, without rapid (the regression form).
// VERIF_REPLAY: newline-separated list of envelope files. Results go to VERIF_OUT as a JSON list; the test
// itself only fails on files it cannot decode (the driver decides what a failing case means).

type replayResult struct {
	File       string   `json:"file"`
	Property   string   `json:"property"`
	OK         bool     `json:"ok"`
	Error      string   `json:"error,omitempty"`
	NonTrivial bool     `json:"nontrivial"`
	Classes    []string `json:"classes,omitempty"`
}

func TestReplay(t *testing.T) {
	list := os.Getenv("VERIF_REPLAY")
	if list == "" {
		t.Skip("VERIF_REPLAY not set")
	}
	startWatchdog()
	var results []replayResult
	flush := func() {
		if cfg.OutFile != "" {
			b, _ := json.Marshal(results)
			_ = os.WriteFile(cfg.OutFile, b, 0o644)
		}
	}
	for _, f := range strings.Split(list, "\n") {
		f = strings.TrimSpace(f)
		if f == "" {
			continue
		}
		raw, err := os.ReadFile(f)
		if err != nil {
			t.Fatalf("replay: %v", err)
		}
		var env envelope
		if err := json.Unmarshal(raw, &env); err != nil {
			t.Fatalf("replay %s: %v", f, err)
		}
		p := registry[env.Property]
		if p == nil {
			t.Fatalf("replay %s: unknown property %q", f, env.Property)
		}
		// a history envelope: the earlier calls are made first, in this process, whatever they return
		for i, h := range env.History {
			hc := p.New()
			if err := json.Unmarshal(h, hc); err != nil {
				t.Fatalf("replay %s: history entry %d: %v", f, i, err)
			}
			runCase(p, hc, nil)
		}
		c := p.New()
		if err := json.Unmarshal(env.Case, c); err != nil {
			t.Fatalf("replay %s: %v", f, err)
		}
		o := runCase(p, c, nil)
		r := replayResult{File: f, Property: p.ID, OK: o.Err == nil, NonTrivial: o.NonTrivial, Classes: o.Classes}
		if o.Err != nil {
			r.Error = o.Err.Error()
		}
		results = append(results, r)
		flush()
	}
	flush()
}
