package geom

// Geometry part of the /verif harness (properties C19 and C20). It is copied into internal/geom of a scratch copy of the
// module by /verif/check, because Shortest, FitSpline, MergeRects and solve3 are package-internal. The shared
// infrastructure (zz_verif_infra_test.go, zz_verif_replay_test.go) is generated from /verif/harness/verifh by stage.sh.

import (
	"fmt"
	"math"
	"strconv"
	"testing"

	"pgregory.net/rapid"
)

// ---------------------------------------------------------------------------------------------------------
// Corridors

type XY struct{ X, Y float64 }

type XRect struct {
	L, T, R, B float64
}

type CorridorCase struct {
	Rects      []XRect `json:"rects"`
	Start      XY      `json:"start"`
	End        XY      `json:"end"`
	StartClass string  `json:"start_class"`
	EndClass   string  `json:"end_class"`
}

func (c *CorridorCase) rects() []Rect {
	rs := make([]Rect, len(c.Rects))
	for i, r := range c.Rects {
		rs[i] = Rect{P{r.L, r.T}, P{r.R, r.B}}
	}
	return rs
}

// wellFormed: stacked rectangles of positive size, consecutive ones share a boundary segment of positive length
func (c *CorridorCase) wellFormed() error {
	if len(c.Rects) == 0 {
		return fmt.Errorf("no rectangles")
	}
	for i, r := range c.Rects {
		if !(r.L < r.R && r.T < r.B) {
			return fmt.Errorf("rectangle %d has no positive size", i)
		}
		if i > 0 {
			p := c.Rects[i-1]
			if p.B != r.T {
				return fmt.Errorf("rectangle %d does not start where rectangle %d ends", i, i-1)
			}
			if !(math.Min(p.R, r.R)-math.Max(p.L, r.L) > 0) {
				return fmt.Errorf("rectangles %d and %d share no boundary segment of positive length", i-1, i)
			}
		}
	}
	return nil
}

// classify a point relative to a rectangle; outerTop says whether the "outer" horizontal edge is the top one
func classOf(p XY, r XRect, outerTop bool) string {
	outerY, innerY := r.T, r.B
	if !outerTop {
		outerY, innerY = r.B, r.T
	}
	onX := p.X == r.L || p.X == r.R
	inX := p.X > r.L && p.X < r.R
	inY := p.Y > r.T && p.Y < r.B
	switch {
	case p.Y == outerY && inX:
		return "edge"
	case p.Y == outerY && onX:
		return "corner"
	case p.Y == innerY && inX:
		return "door"
	case p.Y == innerY && onX:
		return "innercorner"
	case inY && onX:
		return "side"
	case inY && inX:
		return "interior"
	}
	return "outside"
}

// The main classes are those in which the router is expected to be correct; the others are known finding K1.
func mainClasses(start, end string) bool {
	okS := start == "edge" || start == "interior" || start == "side"
	okE := end == "edge" || end == "side"
	return okS && okE
}

// ---------------------------------------------------------------------------------------------------------
// Generator

func pickG(rt *rapid.T, label string, n int) int { return rapid.IntRange(0, n-1).Draw(rt, label) }

func genCorridor(rt *rapid.T, maxK int) []XRect {
	k := rapid.IntRange(1, maxK).Draw(rt, "k")
	grid := []float64{1, 1, 10, 23, 0.5, 7.25}[pickG(rt, "grid", 6)]
	free := pickG(rt, "free_floats", 5) == 0 // free floats instead of grid coordinates
	coord := func(label string, lo, hi int) float64 {
		v := float64(rapid.IntRange(lo, hi).Draw(rt, label))
		if free {
			v += rapid.Float64Range(0, 0.999).Draw(rt, label+"_frac")
		}
		return v * grid
	}
	rs := make([]XRect, 0, k)
	y := coord("y0", 0, 4)
	l := coord("l0", 0, 20)
	w := coord("w0", 1, 10)
	if w <= 0 {
		w = grid
	}
	for i := 0; i < k; i++ {
		h := coord("h", 1, 5)
		if h <= 0 {
			h = grid
		}
		if i > 0 {
			// how the next rectangle relates to the previous one [l, l+w]
			switch pickG(rt, "step", 8) {
			case 0: // equal left edge
				w2 := coord("w", 1, 10)
				w = w2
			case 1: // equal right edge
				w2 := coord("w", 1, 10)
				l, w = l+w-w2, w2
			case 2: // both equal
			case 3: // both-side widening
				dl, dr := coord("dl", 1, 6), coord("dr", 1, 6)
				l, w = l-dl, w+dl+dr
			case 4: // both-side narrowing (needs room)
				dl, dr := coord("dl", 1, 4), coord("dr", 1, 4)
				if w-dl-dr > 0 {
					l, w = l+dl, w-dl-dr
				}
			default: // free shift with guaranteed overlap of positive length
				w2 := coord("w", 1, 10)
				// new left edge anywhere in (l - w2, l + w): overlap = min(l+w, l2+w2) - max(l, l2) > 0
				span := w + w2
				f := rapid.Float64Range(0.02, 0.98).Draw(rt, "shift")
				l2 := l - w2 + f*span
				if !free {
					l2 = math.Round(l2/grid) * grid
				}
				if math.Min(l+w, l2+w2)-math.Max(l, l2) > 0 {
					l, w = l2, w2
				}
			}
		}
		r := XRect{L: l, T: y, R: l + w, B: y + h}
		// soundness of the generator: positive size and a shared boundary segment of clearly positive length, also after
		// floating-point rounding; otherwise fall back to a copy of the previous rectangle's x-range
		minLen := 1e-3 * grid
		if len(rs) > 0 {
			p := rs[len(rs)-1]
			if !(r.R-r.L >= minLen) || !(math.Min(p.R, r.R)-math.Max(p.L, r.L) >= minLen) {
				r.L, r.R = p.L, p.R
				l, w = p.L, p.R-p.L
			}
		} else if !(r.R-r.L >= minLen) {
			r.R = r.L + grid
			w = grid
		}
		if !(r.B-r.T >= minLen) {
			r.B = r.T + grid
			h = r.B - r.T
		}
		rs = append(rs, r)
		y = r.B
	}
	return rs
}

// genPoint draws a point of the named class in r
func genPoint(rt *rapid.T, r XRect, class string, outerTop bool, label string) XY {
	outerY, innerY := r.T, r.B
	if !outerTop {
		outerY, innerY = r.B, r.T
	}
	// strictly inside coordinates: either a "nice" fraction (grid-like, produces collinearities) or a free float
	frac := func(l string) float64 {
		if rapid.Bool().Draw(rt, l+"_nice") {
			return []float64{0.5, 0.25, 0.75, 0.125, 0.875}[pickG(rt, l+"_q", 5)]
		}
		return rapid.Float64Range(0.01, 0.99).Draw(rt, l)
	}
	inX := func() float64 {
		x := r.L + frac(label+"_fx")*(r.R-r.L)
		if !(x > r.L && x < r.R) {
			x = (r.L + r.R) / 2
		}
		return x
	}
	inY := func() float64 {
		y := r.T + frac(label+"_fy")*(r.B-r.T)
		if !(y > r.T && y < r.B) {
			y = (r.T + r.B) / 2
		}
		return y
	}
	side := func() float64 {
		if rapid.Bool().Draw(rt, label+"_right") {
			return r.R
		}
		return r.L
	}
	switch class {
	case "edge":
		return XY{inX(), outerY}
	case "interior":
		return XY{inX(), inY()}
	case "side":
		return XY{side(), inY()}
	case "door":
		return XY{inX(), innerY}
	case "corner":
		return XY{side(), outerY}
	case "innercorner":
		return XY{side(), innerY}
	}
	panic("class " + class)
}

// uniform over the main classes: the router's only caller uses edge/edge, but the property quantifies over all
// positions, and a seeded change (seeded/r2-m19) lives on interior start x side end only
var (
	startMain = []string{"edge", "edge", "interior", "interior", "side"}
	endMain   = []string{"edge", "side"}
)

func genCorridorCase(rt *rapid.T, maxK int, st *Stats) *CorridorCase {
	c := &CorridorCase{Rects: genCorridor(rt, maxK)}
	c.StartClass = startMain[pickG(rt, "start_class", len(startMain))]
	c.EndClass = endMain[pickG(rt, "end_class", len(endMain))]
	c.Start = genPoint(rt, c.Rects[0], c.StartClass, true, "s")
	c.End = genPoint(rt, c.Rects[len(c.Rects)-1], c.EndClass, false, "e")
	// rounding can move a drawn point onto a neighbouring class (e.g. onto a corner): re-derive, and keep to the main classes
	if got := classOf(c.Start, c.Rects[0], true); got != c.StartClass {
		c.StartClass = "edge"
		c.Start = XY{c.Rects[0].L + (c.Rects[0].R-c.Rects[0].L)/2, c.Rects[0].T}
	}
	if got := classOf(c.End, c.Rects[len(c.Rects)-1], false); got != c.EndClass {
		last := c.Rects[len(c.Rects)-1]
		c.EndClass = "edge"
		c.End = XY{last.L + (last.R-last.L)/2, last.B}
	}
	if c.StartClass == "interior" && onVertexChord(c.Start, c.Rects) {
		// known finding K1d: an interior start point that lies on a segment joining two corridor vertices (e.g. on the
		// diagonal of the first rectangle) may sit on a triangulation diagonal. Excluded by construction, counted.
		if st != nil {
			st.exclude("K1d-interior-start-on-a-chord-between-corridor-vertices")
		}
		for i := 0; i < 20 && onVertexChord(c.Start, c.Rects); i++ {
			r := c.Rects[0]
			fx := rapid.Float64Range(0.01, 0.99).Draw(rt, "s_fx_redraw")
			fy := rapid.Float64Range(0.01, 0.99).Draw(rt, "s_fy_redraw")
			c.Start = XY{r.L + fx*(r.R-r.L), r.T + fy*(r.B-r.T)}
		}
		if classOf(c.Start, c.Rects[0], true) != "interior" || onVertexChord(c.Start, c.Rects) {
			c.StartClass = "edge"
			c.Start = XY{(c.Rects[0].L + c.Rects[0].R) / 2, c.Rects[0].T}
		}
	}
	return c
}

// corridorCorners: all rectangle corners (a superset of the merged polygon's vertices)
func corridorCorners(rs []XRect) []XY {
	var pts []XY
	for _, r := range rs {
		pts = append(pts, XY{r.L, r.T}, XY{r.R, r.T}, XY{r.L, r.B}, XY{r.R, r.B})
	}
	return pts
}

// onVertexChord: p lies on the closed segment between two distinct rectangle corners of the corridor
func onVertexChord(p XY, rs []XRect) bool {
	pts := corridorCorners(rs)
	for i := range pts {
		for j := i + 1; j < len(pts); j++ {
			a, b := pts[i], pts[j]
			if a == b {
				continue
			}
			cross := (b.X-a.X)*(p.Y-a.Y) - (b.Y-a.Y)*(p.X-a.X)
			scale := math.Abs(b.X-a.X) + math.Abs(b.Y-a.Y)
			if math.Abs(cross) <= 1e-9*scale*scale &&
				p.X >= math.Min(a.X, b.X)-1e-9*scale && p.X <= math.Max(a.X, b.X)+1e-9*scale &&
				p.Y >= math.Min(a.Y, b.Y)-1e-9*scale && p.Y <= math.Max(a.Y, b.Y)+1e-9*scale {
				return true
			}
		}
	}
	return false
}

// ---------------------------------------------------------------------------------------------------------
// Oracle: inside test and visibility-graph shortest path (independent of Triangulate / the funnel)

func segInsideCorridor(a, b P, rs []Rect, eps float64) bool {
	if a.Y > b.Y {
		a, b = b, a
	}
	if a.Y < rs[0].TL.Y-eps || b.Y > rs[len(rs)-1].BR.Y+eps {
		return false
	}
	if a.Y == b.Y {
		// horizontal: the union of the x-ranges of the rectangles whose (closed) y-range contains y is an interval
		lo, hi := math.Inf(1), math.Inf(-1)
		for _, r := range rs {
			if a.Y >= r.TL.Y-eps && a.Y <= r.BR.Y+eps {
				lo = math.Min(lo, r.TL.X)
				hi = math.Max(hi, r.BR.X)
			}
		}
		return math.Min(a.X, b.X) >= lo-eps && math.Max(a.X, b.X) <= hi+eps
	}
	at := func(y float64) float64 {
		t := (y - a.Y) / (b.Y - a.Y)
		return a.X + t*(b.X-a.X)
	}
	for _, r := range rs {
		y0 := math.Max(a.Y, r.TL.Y)
		y1 := math.Min(b.Y, r.BR.Y)
		if y0 > y1 {
			continue
		}
		if y0 == y1 {
			// the segment only touches this rectangle's strip in one point (its end lies on the boundary line):
			// that point is judged by the neighbouring strip, which the segment crosses with positive length
			continue
		}
		x0, x1 := at(y0), at(y1)
		if x0 < r.TL.X-eps || x0 > r.BR.X+eps || x1 < r.TL.X-eps || x1 > r.BR.X+eps {
			return false
		}
	}
	return true
}

func pointInCorridor(p P, rs []Rect, eps float64) bool {
	for _, r := range rs {
		if p.X >= r.TL.X-eps && p.X <= r.BR.X+eps && p.Y >= r.TL.Y-eps && p.Y <= r.BR.Y+eps {
			return true
		}
	}
	return false
}

func visibilityShortest(s, t P, rs []Rect, eps float64) float64 {
	pts := []P{s, t}
	for _, r := range rs {
		pts = append(pts, r.TL, r.BR, P{r.TL.X, r.BR.Y}, P{r.BR.X, r.TL.Y})
	}
	n := len(pts)
	dist := make([]float64, n)
	for i := range dist {
		dist[i] = math.Inf(1)
	}
	dist[0] = 0
	done := make([]bool, n)
	for {
		u := -1
		for i := 0; i < n; i++ {
			if !done[i] && (u < 0 || dist[i] < dist[u]) {
				u = i
			}
		}
		if u < 0 || math.IsInf(dist[u], 1) {
			break
		}
		done[u] = true
		if u == 1 {
			break
		}
		for v := 0; v < n; v++ {
			if done[v] {
				continue
			}
			if pointInCorridor(pts[v], rs, eps) && segInsideCorridor(pts[u], pts[v], rs, eps) {
				if d := dist[u] + math.Hypot(pts[u].X-pts[v].X, pts[u].Y-pts[v].Y); d < dist[v] {
					dist[v] = d
				}
			}
		}
	}
	return dist[1]
}

// doorDP: an independent second oracle for the self-test. The shortest path crosses every door line once, in order;
// minimise over the crossing points by coordinate descent on a fine discretisation of each door (upper bound that
// converges to the optimum from above; used only to cross-check the visibility graph within a loose tolerance).
func doorDPShortest(s, t P, rs []Rect) float64 {
	type door struct{ y, lo, hi float64 }
	var doors []door
	for i := 1; i < len(rs); i++ {
		doors = append(doors, door{rs[i].TL.Y, math.Max(rs[i-1].TL.X, rs[i].TL.X), math.Min(rs[i-1].BR.X, rs[i].BR.X)})
	}
	const K = 400
	prev := []float64{0}
	prevPts := []P{s}
	for _, d := range doors {
		cur := make([]float64, K+1)
		curPts := make([]P, K+1)
		for j := 0; j <= K; j++ {
			p := P{d.lo + (d.hi-d.lo)*float64(j)/K, d.y}
			best := math.Inf(1)
			for i, q := range prevPts {
				if v := prev[i] + math.Hypot(p.X-q.X, p.Y-q.Y); v < best {
					best = v
				}
			}
			cur[j], curPts[j] = best, p
		}
		prev, prevPts = cur, curPts
	}
	best := math.Inf(1)
	for i, q := range prevPts {
		if v := prev[i] + math.Hypot(t.X-q.X, t.Y-q.Y); v < best {
			best = v
		}
	}
	return best
}

// ---------------------------------------------------------------------------------------------------------
// C19

var propC19 = register(&Property{
	ID: "C19",
	Rule: "well-formed corridors of 1..8 stacked rectangles (grid and free-float coordinates; equal left / equal right / both equal / both-side widening / both-side narrowing / free shifts) x start in {strictly inside the top edge, interior, side} of the first x end in {strictly inside the bottom edge, side} of the last rectangle " +
		"(the other position classes are known finding K1 and excluded by construction); oracle: polyline from end to start, every segment inside the corridor, length == visibility-graph Dijkstra length (1e-9 relative); " +
		"non-trivial = >=3 rectangles and a returned path with >=2 interior vertices that turns both left and right",
	New:   func() any { return &CorridorCase{} },
	Gen:   func(rt *rapid.T, s *Stats) any { return genCorridorCase(rt, 8, s) },
	Check: func(c any) *Outcome { return checkC19(c.(*CorridorCase)) },
})

func stepClasses(c *CorridorCase, o *Outcome) {
	for i := 1; i < len(c.Rects); i++ {
		p, r := c.Rects[i-1], c.Rects[i]
		switch {
		case p.L == r.L && p.R == r.R:
			o.class("step=both-equal")
		case p.L == r.L:
			o.class("step=equal-left")
		case p.R == r.R:
			o.class("step=equal-right")
		case r.L < p.L && r.R > p.R:
			o.class("step=both-widening")
		case r.L > p.L && r.R < p.R:
			o.class("step=both-narrowing")
		default:
			o.class("step=shift")
		}
	}
	o.class(fmt.Sprintf("rects=%d", len(c.Rects)))
}

func checkC19(c *CorridorCase) (o *Outcome) {
	o = &Outcome{}
	if err := c.wellFormed(); err != nil {
		return o.failf("bad case: %v", err)
	}
	sc := classOf(c.Start, c.Rects[0], true)
	ec := classOf(c.End, c.Rects[len(c.Rects)-1], false)
	if sc == "outside" || ec == "outside" {
		return o.failf("bad case: start/end not in the first/last rectangle")
	}
	o.class("start=" + sc)
	o.class("end=" + ec)
	stepClasses(c, o)
	rs := c.rects()
	s, e := P{c.Start.X, c.Start.Y}, P{c.End.X, c.End.Y}
	var path []P
	func() {
		defer func() {
			if r := recover(); r != nil {
				o.failf("Shortest panicked: %v", r)
			}
		}()
		path = Shortest(s, e, rs)
	}()
	if o.Err != nil {
		return o
	}
	if len(path) < 2 && s != e {
		return o.failf("path has %d points", len(path))
	}
	if path[0] != e || path[len(path)-1] != s {
		return o.failf("path %v does not run from the end point %v to the start point %v", path, e, s)
	}
	scale := 1.0
	for _, r := range rs {
		scale = math.Max(scale, math.Max(math.Abs(r.BR.X), math.Abs(r.BR.Y)))
	}
	eps := 1e-9 * scale
	length := 0.0
	left, right := 0, 0
	for i := 1; i < len(path); i++ {
		if !pointInCorridor(path[i], rs, eps) || !segInsideCorridor(path[i-1], path[i], rs, eps) {
			return o.failf("segment %v - %v of the returned path %v leaves the corridor", path[i-1], path[i], path)
		}
		length += math.Hypot(path[i].X-path[i-1].X, path[i].Y-path[i-1].Y)
		if i >= 2 {
			a, b, cc := path[i-2], path[i-1], path[i]
			d := (b.X-a.X)*(cc.Y-a.Y) - (b.Y-a.Y)*(cc.X-a.X)
			if d > 0 {
				left++
			} else if d < 0 {
				right++
			}
		}
	}
	want := visibilityShortest(s, e, rs, eps)
	if math.IsInf(want, 1) {
		return o.failf("oracle found no path at all (bad case?)")
	}
	if math.Abs(length-want) > 1e-9*(1+want) {
		return o.failf("returned path %v has length %.12g, the Euclidean shortest path inside the corridor has length %.12g", path, length, want)
	}
	o.classIf(len(path) >= 3, "path_bends")
	o.NonTrivial = len(c.Rects) >= 3 && len(path) >= 4 && left >= 1 && right >= 1
	return o
}

func TestC19(t *testing.T) { runGenerated(t, propC19) }

// TestC19OracleSelfTest cross-checks the visibility-graph oracle against the door-to-door dynamic programme.
func TestC19OracleSelfTest(t *testing.T) {
	rapid.Check(t, func(rt *rapid.T) {
		c := genCorridorCase(rt, 5, nil)
		rs := c.rects()
		s, e := P{c.Start.X, c.Start.Y}, P{c.End.X, c.End.Y}
		a := visibilityShortest(s, e, rs, 1e-9)
		b := doorDPShortest(s, e, rs)
		// the DP restricts door crossings to 401 sample points per door: it can only be longer, and by little
		if a > b+1e-9*(1+b) || b > a*(1+2e-3)+1e-6 {
			rt.Fatalf("oracles disagree: visibility graph %v, door DP %v on %+v", a, b, c)
		}
		// the O(k^2) slope-window oracle of the long corridors (C19L) must agree exactly where both apply
		if c.StartClass == "edge" && c.EndClass == "edge" {
			if w := sweepShortest(s, e, rs); math.Abs(w-a) > 1e-9*(1+a) {
				rt.Fatalf("oracles disagree: visibility graph %v, slope-window sweep %v on %+v", a, w, c)
			}
		}
	})
}

// TestC19Exhaustive: small-scope exhaustive enumeration. Every corridor of 1..K unit-grid rectangles with integer
// left/right edges in 0..G (heights alternate 1, 2 so that slopes vary; consecutive rectangles must share a segment of
// positive length) x start in {3 points strictly inside the top edge, 2 side points} x end in {3 points strictly inside
// the bottom edge, 2 side points}. Integer grids are where collinear vertices - the hard case of the funnel - are dense.
// With VERIF_C19_FIT=1 the same corridors are also fed to the spline fitter (C20 part A).
func TestC19Exhaustive(t *testing.T) { exhaustiveCorridors(t, propC19, false) }

func exhaustiveCorridors(t *testing.T, p *Property, fit bool) {
	startWatchdog()
	K, _ := strconv.Atoi(getenv("VERIF_C19_K", "3"))
	G, _ := strconv.Atoi(getenv("VERIF_C19_G", "4"))
	nsh, _ := strconv.Atoi(getenv("VERIF_NSHARDS", "1"))
	st := newStats(p.ID, p.Rule)
	complete := false
	defer func() { st.write(complete) }()
	type iv struct{ l, r int }
	var ivs []iv
	for l := 0; l <= G; l++ {
		for r := l + 1; r <= G; r++ {
			ivs = append(ivs, iv{l, r})
		}
	}
	idx, corridors := 0, 0
	var rec func(rs []XRect, y float64)
	rec = func(rs []XRect, y float64) {
		if len(rs) >= 1 {
			idx++
			corridors++
			if idx%nsh == cfg.Shard {
				first, last := rs[0], rs[len(rs)-1]
				var starts, ends []XY
				for j := 1; j <= 3; j++ {
					starts = append(starts, XY{first.L + (first.R-first.L)*float64(j)/4, first.T})
					ends = append(ends, XY{last.L + (last.R-last.L)*float64(j)/4, last.B})
				}
				starts = append(starts, XY{first.L, (first.T + first.B) / 2}, XY{first.R, (first.T + first.B) / 2})
				for i := 1; i <= 3; i++ { // interior starts on a 3x3 sub-grid, except those on a chord between corridor corners (K1d)
					for j := 1; j <= 3; j++ {
						q := XY{first.L + (first.R-first.L)*float64(j)/4, first.T + (first.B-first.T)*float64(i)/4}
						if !onVertexChord(q, rs) {
							starts = append(starts, q)
						}
					}
				}
				ends = append(ends, XY{last.L, (last.T + last.B) / 2}, XY{last.R, (last.T + last.B) / 2})
				for _, s := range starts {
					for _, e := range ends {
						c := &CorridorCase{Rects: append([]XRect(nil), rs...), Start: s, End: e}
						if fit { // layout-like units for the fitter: its tolerances (0.0316, 0.05) are absolute
							for i := range c.Rects {
								r := &c.Rects[i]
								r.L, r.T, r.R, r.B = r.L*10, r.T*10, r.R*10, r.B*10
							}
							c.Start, c.End = XY{s.X * 10, s.Y * 10}, XY{e.X * 10, e.Y * 10}
						}
						c.StartClass, c.EndClass = classOf(c.Start, c.Rects[0], true), classOf(c.End, c.Rects[len(c.Rects)-1], false)
						var cs any = c
						if fit {
							cs = &SplineCase{Corridor: c}
						}
						o := runCase(p, cs, st)
						if o.Err != nil {
							writeFailCase(p.ID, cs, o.Err)
							t.Fatalf("property %s violated (exhaustive enumeration): %v\ncase: %s", p.ID, o.Err, mustRaw(cs))
						}
					}
				}
			}
		}
		if len(rs) == K {
			return
		}
		h := float64(1 + len(rs)%2)
		for _, v := range ivs {
			if len(rs) > 0 {
				prev := rs[len(rs)-1]
				if math.Min(prev.R, float64(v.r))-math.Max(prev.L, float64(v.l)) <= 0 {
					continue
				}
			}
			rec(append(rs, XRect{L: float64(v.l), T: y, R: float64(v.r), B: y + h}), y+h)
		}
	}
	rec(nil, 0)
	complete = true
	st.Extra["exhaustive_corridors"] = fmt.Sprintf("all corridors of 1..%d rectangles with integer edges in 0..%d (%d corridors) x (5 + up to 9 interior) start x 5 end positions", K, G, corridors)
}

// ---------------------------------------------------------------------------------------------------------
// C19L — long corridors (hundreds to thousands of rectangles), decided where the oracle is free.
//
// The visibility-graph oracle is cubic in the number of rectangles and stops being affordable around a dozen. One family
// of long corridors needs no search at all: if the straight segment from start to end lies inside the corridor, the
// Euclidean shortest path IS that segment. The generator builds such corridors by construction - every rectangle
// contains a common core interval [cl, cr] of x, start and end lie in the core on the outer horizontal edges - with
// straight walls (all left edges equal: every corner is collinear, both funnel chains grow to the full length of the
// corridor) or walls that step outward and back by drawn amounts. Lengths sit around 512, 1024 and 2048 rectangles,
// i.e. around 1024, 2048 and 4096 corner points per wall, where capacity thresholds of the router's deque would be
// (seeded/r6-m19 grows the deque on demand beyond 1024 slots a side and invalidates the saved apex index).

// sweepShortest: exact Euclidean shortest path length for a start on the top edge and an end on the bottom edge, in
// O(k^2). The path is y-monotone and bends only at reflex vertices of the corridor, which are the end points of the
// doors (the shared boundary segments). From every node (start, door end points) sweep downward keeping the window of
// slopes dx/dy that pass through all doors met so far: a later node is visible iff its slope lies in the window.
// Independent of the visibility-graph oracle (no segment clipping) and cross-checked against it in TestC19OracleSelfTest.
func sweepShortest(s, t P, rs []Rect) float64 {
	type door struct{ y, lo, hi float64 }
	var doors []door
	for i := 1; i < len(rs); i++ {
		doors = append(doors, door{rs[i].TL.Y, math.Max(rs[i-1].TL.X, rs[i].TL.X), math.Min(rs[i-1].BR.X, rs[i].BR.X)})
	}
	n := len(doors)
	// node 0 = s (level -1); nodes 1+2i, 2+2i = lo/hi end of door i; last = t (level n)
	pts := []P{s}
	lvl := []int{-1}
	for i, d := range doors {
		pts = append(pts, P{d.lo, d.y}, P{d.hi, d.y})
		lvl = append(lvl, i, i)
	}
	pts = append(pts, t)
	lvl = append(lvl, n)
	dist := make([]float64, len(pts))
	for i := range dist {
		dist[i] = math.Inf(1)
	}
	dist[0] = 0
	const tol = 1e-12
	for a := 0; a < len(pts)-1; a++ {
		if math.IsInf(dist[a], 1) {
			continue
		}
		p := pts[a]
		wlo, whi := math.Inf(-1), math.Inf(1)
		relax := func(b int) {
			q := pts[b]
			sl := (q.X - p.X) / (q.Y - p.Y)
			m := tol * (1 + math.Abs(sl))
			if sl >= wlo-m && sl <= whi+m {
				if v := dist[a] + math.Hypot(q.X-p.X, q.Y-p.Y); v < dist[b] {
					dist[b] = v
				}
			}
		}
		for j := lvl[a] + 1; j < n && wlo <= whi+tol*(1+math.Abs(whi)); j++ {
			d := doors[j]
			relax(1 + 2*j)
			relax(2 + 2*j)
			wlo = math.Max(wlo, (d.lo-p.X)/(d.y-p.Y))
			whi = math.Min(whi, (d.hi-p.X)/(d.y-p.Y))
			if j == n-1 && wlo <= whi+tol*(1+math.Abs(whi)) {
				relax(len(pts) - 1)
			}
		}
		if lvl[a] == n-1 || n == 0 {
			relax(len(pts) - 1)
		}
	}
	return dist[len(pts)-1]
}

var propC19L = register(&Property{
	ID: "C19L",
	Rule: "corridors of 60..2300 stacked rectangles around a common core x-interval (walls straight, stepping outward, reaching far out at the top, or random walks that also step into the core), start strictly inside the top edge and end strictly inside the bottom edge; " +
		"oracle: polyline from end to start, every segment inside the corridor, length == exact shortest length by an O(k^2) slope-window sweep over the door end points (and == |start-end| whenever that segment lies inside), 1e-9 relative. non-trivial = more than 512 rectangles and start.x != end.x",
	New:   func() any { return &CorridorCase{} },
	Gen:   func(rt *rapid.T, s *Stats) any { return genLongCorridor(rt) },
	Check: func(c any) *Outcome { return checkC19L(c.(*CorridorCase)) },
})

func genLongCorridor(rt *rapid.T) *CorridorCase {
	lo := []int{60, 500, 1020, 2040}[pickG(rt, "long_class", 4)]
	k := rapid.IntRange(lo, lo+260).Draw(rt, "long_k")
	cl := float64(rapid.IntRange(0, 50).Draw(rt, "core_l"))
	cr := cl + float64(rapid.IntRange(2, 80).Draw(rt, "core_w"))
	// wall style per side: 0 straight (every corner collinear), 1 steps outward by 0..3 units at drawn places,
	// 2 the first rectangles reach far out on that side and the start sits out there (the path leans on one corner and
	// then runs straight), 3 a random walk that may also step INTO the core (the path leans on many corners)
	styleL, styleR := pickG(rt, "wall_l", 4), pickG(rt, "wall_r", 4)
	walkL, walkR := 0.0, 0.0
	head := rapid.IntRange(1, 3).Draw(rt, "head")
	uniformH := rapid.Bool().Draw(rt, "uniform_h")
	h0 := float64(rapid.IntRange(1, 40).Draw(rt, "h0"))
	c := &CorridorCase{StartClass: "edge", EndClass: "edge"}
	y := 0.0
	for i := 0; i < k; i++ {
		h := h0
		if !uniformH {
			h = float64(rapid.IntRange(1, 40).Draw(rt, "h"))
		}
		l, r := cl, cr
		switch styleL {
		case 1:
			l -= float64(rapid.IntRange(0, 3).Draw(rt, "out_l"))
		case 2:
			if i < head {
				l -= 50
			}
		case 3:
			if rapid.IntRange(0, 3).Draw(rt, "walk_l?") == 0 {
				walkL += float64(rapid.IntRange(-2, 2).Draw(rt, "walk_l"))
			}
			walkL = math.Max(-40, math.Min(walkL, (cr-cl)/2-1)) // never closer than 1 to the middle of the core
			l += walkL
		}
		switch styleR {
		case 1:
			r += float64(rapid.IntRange(0, 3).Draw(rt, "out_r"))
		case 2:
			if i < head {
				r += 50
			}
		case 3:
			if rapid.IntRange(0, 3).Draw(rt, "walk_r?") == 0 {
				walkR += float64(rapid.IntRange(-2, 2).Draw(rt, "walk_r"))
			}
			walkR = math.Max(-40, math.Min(walkR, (cr-cl)/2-1))
			r -= walkR
		}
		c.Rects = append(c.Rects, XRect{L: l, T: y, R: r, B: y + h})
		y += h
	}
	w := cr - cl
	fs := float64(rapid.IntRange(1, 15).Draw(rt, "start_frac")) / 16
	fe := float64(rapid.IntRange(1, 15).Draw(rt, "end_frac")) / 16
	first, last := c.Rects[0], c.Rects[len(c.Rects)-1]
	c.Start = XY{first.L + fs*(first.R-first.L), 0}
	c.End = XY{last.L + fe*(last.R-last.L), y}
	_ = w
	return c
}

func checkC19L(c *CorridorCase) (o *Outcome) {
	o = &Outcome{}
	if err := c.wellFormed(); err != nil {
		return o.failf("bad case: %v", err)
	}
	if classOf(c.Start, c.Rects[0], true) != "edge" || classOf(c.End, c.Rects[len(c.Rects)-1], false) != "edge" {
		return o.failf("bad case: C19L wants the start strictly inside the top edge and the end strictly inside the bottom edge")
	}
	rs := c.rects()
	s, e := P{c.Start.X, c.Start.Y}, P{c.End.X, c.End.Y}
	scale := 1.0
	for _, r := range rs {
		scale = math.Max(scale, math.Max(math.Abs(r.BR.X), math.Abs(r.BR.Y)))
	}
	eps := 1e-9 * scale
	straight := segInsideCorridor(s, e, rs, eps)
	var path []P
	func() {
		defer func() {
			if r := recover(); r != nil {
				o.failf("Shortest panicked: %v", r)
			}
		}()
		path = Shortest(s, e, rs)
	}()
	if o.Err != nil {
		return o
	}
	if len(path) < 2 {
		return o.failf("path has %d points", len(path))
	}
	if path[0] != e || path[len(path)-1] != s {
		return o.failf("path of %d points does not run from the end point %v to the start point %v", len(path), e, s)
	}
	length := 0.0
	for i := 1; i < len(path); i++ {
		if !pointInCorridor(path[i], rs, eps) || !segInsideCorridor(path[i-1], path[i], rs, eps) {
			return o.failf("segment %v - %v of the returned path (%d points) leaves the corridor", path[i-1], path[i], len(path))
		}
		length += math.Hypot(path[i].X-path[i-1].X, path[i].Y-path[i-1].Y)
	}
	if straight {
		if want := math.Hypot(s.X-e.X, s.Y-e.Y); math.Abs(length-want) > 1e-9*(1+want) {
			return o.failf("returned path has %d points and length %.12g; the straight segment from start to end lies inside the corridor and has length %.12g", len(path), length, want)
		}
	}
	want := sweepShortest(s, e, rs)
	if math.IsInf(want, 1) {
		return o.failf("oracle found no path at all (bad case?)")
	}
	if math.Abs(length-want) > 1e-9*(1+want) {
		return o.failf("returned path has %d points and length %.12g, the Euclidean shortest path inside the corridor has length %.12g", len(path), length, want)
	}
	o.class(fmt.Sprintf("rects>=%d", len(c.Rects)/500*500))
	o.classIf(straight, "straight segment is inside")
	o.classIf(len(path) > 2, "path_bends")
	o.classIf(len(path) > 20, "path_bends>18")
	o.NonTrivial = len(c.Rects) > 512 && s.X != e.X
	return o
}

func TestC19Long(t *testing.T) { runGenerated(t, propC19L) }
