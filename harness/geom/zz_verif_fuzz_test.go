package geom

import "testing"

// Native fuzz targets for the geometry properties (see fuzzTarget in zz_verif_infra_test.go).
func FuzzC19(f *testing.F)      { fuzzTarget(f, propC19) }
func FuzzC20(f *testing.F)      { fuzzTarget(f, propC20) }
func FuzzC20Roots(f *testing.F) { fuzzTarget(f, propC20B) }
