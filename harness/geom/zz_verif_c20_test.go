package geom

import (
	"fmt"
	"math"
	"sort"
	"testing"

	"pgregory.net/rapid"
)

// ---------------------------------------------------------------------------------------------------------
// C20 part A — fitted splines stay inside their corridor

type SplineCase struct {
	Corridor *CorridorCase `json:"corridor"`
}

const (
	splineTol    = 0.05 // the property's tolerance: the fitter's own vertex tolerance
	k2VertexDist = 0.04 // known finding K2: excursions that leave and re-enter within this distance of corridor vertices
	k2Hug        = 1e-5 // ... or from which the curve stays within this distance of a wall up to such a place
)

var propC20 = register(&Property{
	ID: "C20",
	Rule: "part A: well-formed corridors (as C19, main start/end classes, coordinates in layout-like units) whose shortest path has >=3 points, fed to FitSpline exactly as the spline router does (Shortest output, zero tangents, MergeRects(...).Sides()); " +
		"oracle: >=1 piece, first p0 == path[0], last p3 == path[last], pieces join exactly, no NaN, every one of 400 samples per piece (plus refinement around the worst) within 0.05 (L-infinity) of the corridor; MergeRects vertex multiset == corridor boundary vertices; " +
		"excursions with the signature of known finding K2 (leave and re-enter the corridor within 0.04 of corridor vertices) are counted, not failed. non-trivial = >=2 pieces. " +
		"part B (TestC20Roots): cubics/quadratics/linears built from chosen roots; soundness and completeness with stated tolerances",
	New:   func() any { return &SplineCase{} },
	Gen:   func(rt *rapid.T, s *Stats) any { return genSplineCase(rt, s) },
	Check: func(c any) *Outcome { return checkC20A(c.(*SplineCase)) },
})

func genSplineCase(rt *rapid.T, st *Stats) *SplineCase {
	// corridors whose shortest path is a straight segment never reach the fitter in the router; bias towards bending ones
	for try := 0; ; try++ {
		c := genCorridorCase(rt, 8, st)
		// layout-like units: the 0.05 tolerance is absolute
		f := []float64{1, 10, 23}[pickG(rt, "unit", 3)]
		if f != 1 {
			for i := range c.Rects {
				r := &c.Rects[i]
				r.L, r.T, r.R, r.B = r.L*f, r.T*f, r.R*f, r.B*f
			}
			c.Start = XY{c.Start.X * f, c.Start.Y * f}
			c.End = XY{c.End.X * f, c.End.Y * f}
			// scaling may move a point off its class by rounding; re-derive
			c.StartClass = classOf(c.Start, c.Rects[0], true)
			c.EndClass = classOf(c.End, c.Rects[len(c.Rects)-1], false)
		}
		if c.wellFormed() != nil || !mainClasses(c.StartClass, c.EndClass) {
			continue
		}
		if try < 3 && len(c.Rects) < 2 {
			continue
		}
		return &SplineCase{Corridor: c}
	}
}

func linfDistToCorridor(p P, rs []Rect) float64 {
	best := math.Inf(1)
	for _, rc := range rs {
		dx := math.Max(0, math.Max(rc.TL.X-p.X, p.X-rc.BR.X))
		dy := math.Max(0, math.Max(rc.TL.Y-p.Y, p.Y-rc.BR.Y))
		best = math.Min(best, math.Max(dx, dy))
	}
	return best
}

// distToWalls: Euclidean distance from p to the boundary of the union of the corridor's rectangles (left and right sides,
// the horizontal steps between consecutive rectangles, top of the first and bottom of the last)
func distToWalls(p P, rs []Rect) float64 {
	best := math.Inf(1)
	seg := func(a, b P) {
		dx, dy := b.X-a.X, b.Y-a.Y
		l2 := dx*dx + dy*dy
		t := 0.0
		if l2 > 0 {
			t = math.Max(0, math.Min(1, ((p.X-a.X)*dx+(p.Y-a.Y)*dy)/l2))
		}
		best = math.Min(best, math.Hypot(p.X-(a.X+t*dx), p.Y-(a.Y+t*dy)))
	}
	for i, r := range rs {
		seg(r.TL, P{r.TL.X, r.BR.Y})
		seg(P{r.BR.X, r.TL.Y}, r.BR)
		if i > 0 {
			seg(P{rs[i-1].TL.X, r.TL.Y}, r.TL)
			seg(rs[i-1].BR, P{r.BR.X, r.TL.Y})
		}
	}
	seg(rs[0].TL, P{rs[0].BR.X, rs[0].TL.Y})
	seg(P{rs[len(rs)-1].TL.X, rs[len(rs)-1].BR.Y}, rs[len(rs)-1].BR)
	return best
}

// boundaryVertices: the vertices of the polygon obtained by merging the corridor's rectangles (each once)
func boundaryVertices(rs []Rect) []P {
	var pts []P
	add := func(p P) { pts = append(pts, p) }
	add(rs[0].TL)
	add(P{rs[0].BR.X, rs[0].TL.Y})
	for i := 1; i < len(rs); i++ {
		p, r := rs[i-1], rs[i]
		if p.TL.X != r.TL.X {
			add(P{p.TL.X, r.TL.Y})
			add(r.TL)
		}
		if p.BR.X != r.BR.X {
			add(p.BR)
			add(P{r.BR.X, p.BR.Y})
		}
	}
	last := rs[len(rs)-1]
	add(P{last.TL.X, last.BR.Y})
	add(last.BR)
	return pts
}

// dropCollinear removes vertices of a closed polygon that lie on the straight line between their neighbours
func dropCollinear(ps []P) []P {
	out := append([]P(nil), ps...)
	for changed := true; changed && len(out) > 3; {
		changed = false
		for i := 0; i < len(out); i++ {
			a, b, c := out[(i+len(out)-1)%len(out)], out[i], out[(i+1)%len(out)]
			if (b.X-a.X)*(c.Y-a.Y)-(b.Y-a.Y)*(c.X-a.X) == 0 {
				out = append(out[:i], out[i+1:]...)
				changed = true
				break
			}
		}
	}
	return out
}

// onCorridorBoundary: p is in the corridor and not in its interior (every neighbourhood sticks out): for an
// axis-parallel side midpoint it is enough to probe the four axis directions
func onCorridorBoundary(p P, rs []Rect) bool {
	if !pointInCorridor(p, rs, 0) {
		return false
	}
	scale := 1.0
	for _, r := range rs {
		scale = math.Max(scale, math.Max(math.Abs(r.BR.X), math.Abs(r.BR.Y)))
	}
	h := 1e-7 * scale
	for _, d := range []P{{h, 0}, {-h, 0}, {0, h}, {0, -h}} {
		if !pointInCorridor(P{p.X + d.X, p.Y + d.Y}, rs, 0) {
			return true
		}
	}
	return false
}

func sortPts(ps []P) []P {
	out := append([]P(nil), ps...)
	sort.Slice(out, func(i, j int) bool {
		if out[i].Y != out[j].Y {
			return out[i].Y < out[j].Y
		}
		return out[i].X < out[j].X
	})
	return out
}

func checkC20A(sc *SplineCase) (o *Outcome) {
	o = &Outcome{}
	c := sc.Corridor
	if c == nil {
		return o.failf("bad case")
	}
	if err := c.wellFormed(); err != nil {
		return o.failf("bad case: %v", err)
	}
	scl, ecl := classOf(c.Start, c.Rects[0], true), classOf(c.End, c.Rects[len(c.Rects)-1], false)
	if !mainClasses(scl, ecl) {
		return o.failf("bad case: start/end class %s/%s is outside the main classes (known finding K1)", scl, ecl)
	}
	stepClasses(c, o)
	rs := c.rects()
	s, e := P{c.Start.X, c.Start.Y}, P{c.End.X, c.End.Y}

	// MergeRects: the barriers are made of this polygon; a wrong polygon makes the containment test of the fitter meaningless
	poly := MergeRects(rs)
	// MergeRects may keep vertices that lie in the middle of a straight side (two rectangles with a common left or right
	// x): they do not change the polygon, so they are dropped before comparing with the corridor's boundary vertices.
	gotV, wantV := sortPts(dropCollinear(poly.Points)), sortPts(boundaryVertices(rs))
	if len(gotV) != len(wantV) {
		return o.failf("MergeRects returned the polygon %v (%d corner vertices), the corridor boundary has the %d corners %v", poly.Points, len(gotV), len(wantV), wantV)
	}
	for i := range gotV {
		if gotV[i] != wantV[i] {
			return o.failf("MergeRects polygon %v differs from the corridor's boundary (corners %v)", poly.Points, wantV)
		}
	}
	// every side of the polygon is axis-parallel, of positive length, and lies on the corridor boundary
	for i := range poly.Points {
		a, b := poly.Points[i], poly.Points[(i+1)%len(poly.Points)]
		if (a.X != b.X && a.Y != b.Y) || a == b {
			return o.failf("MergeRects polygon %v has the side %v - %v", poly.Points, a, b)
		}
		mid := P{(a.X + b.X) / 2, (a.Y + b.Y) / 2}
		if !onCorridorBoundary(mid, rs) {
			return o.failf("side %v - %v of the MergeRects polygon %v is not on the corridor boundary", a, b, poly.Points)
		}
	}
	sides := poly.Sides()
	if len(sides) != len(poly.Points) {
		return o.failf("polygon with %d vertices has %d sides", len(poly.Points), len(sides))
	}

	var path []P
	var ctrls []ctrlp
	func() {
		defer func() {
			if r := recover(); r != nil {
				o.failf("panic: %v", r)
			}
		}()
		path = Shortest(s, e, rs)
		if len(path) >= 3 {
			ctrls = FitSpline(path, P{}, P{}, sides)
		}
	}()
	if o.Err != nil {
		return o
	}
	if len(path) < 3 {
		o.class("straight_path(fitter not used by the router)")
		return o
	}
	o.class("fitted")
	if len(ctrls) == 0 {
		return o.failf("FitSpline returned no piece for path %v", path)
	}
	if ctrls[0].p0 != path[0] || ctrls[len(ctrls)-1].p3 != path[len(path)-1] {
		return o.failf("spline runs from %v to %v, the path from %v to %v", ctrls[0].p0, ctrls[len(ctrls)-1].p3, path[0], path[len(path)-1])
	}
	for i := 1; i < len(ctrls); i++ {
		if ctrls[i-1].p3 != ctrls[i].p0 {
			return o.failf("pieces %d and %d do not join: %v vs %v", i-1, i, ctrls[i-1].p3, ctrls[i].p0)
		}
	}
	// corner vertices plus the vertices MergeRects keeps in the middle of straight sides (they are barrier ends too)
	verts := boundaryVertices(rs)
	for i := 1; i < len(rs); i++ {
		if rs[i-1].TL.X == rs[i].TL.X {
			verts = append(verts, rs[i].TL)
		}
		if rs[i-1].BR.X == rs[i].BR.X {
			verts = append(verts, rs[i-1].BR)
		}
	}
	nearVertex := func(p P) bool {
		for _, v := range verts {
			if math.Hypot(p.X-v.X, p.Y-v.Y) <= k2VertexDist {
				return true
			}
		}
		return false
	}
	for pi, cp := range ctrls {
		for _, q := range []P{cp.p0, cp.p1, cp.p2, cp.p3} {
			if math.IsNaN(q.X) || math.IsNaN(q.Y) || math.IsInf(q.X, 0) || math.IsInf(q.Y, 0) {
				return o.failf("piece %d has a non-finite control point: %v", pi, cp)
			}
		}
		const N = 400
		const outEps = 1e-9 // "outside at all" (the tolerance only guards against rounding at the corridor boundary)
		worst, worstT := 0.0, 0.0
		dist := make([]float64, N+1)
		for j := 0; j <= N; j++ {
			tt := float64(j) / N
			dist[j] = linfDistToCorridor(cp.curvep(tt), rs)
			if dist[j] > worst {
				worst, worstT = dist[j], tt
			}
		}
		// refine around the worst sample
		lo, hi := math.Max(0, worstT-1.0/N), math.Min(1, worstT+1.0/N)
		for j := 0; j <= 50; j++ {
			tt := lo + (hi-lo)*float64(j)/50
			if d := linfDistToCorridor(cp.curvep(tt), rs); d > worst {
				worst, worstT = d, tt
			}
		}
		if worst <= splineTol {
			continue
		}
		// an excursion beyond the tolerance. Known finding K2: the fitter ignores curve/barrier crossings within
		// sqrt(1e-3) = 0.0316 of a barrier end, so a curve that leaves AND re-enters the corridor right next to corridor
		// vertices is accepted (a chord through two collinear reflex vertices; a bulge around a rectangle narrower than the
		// tolerance). Signature: every maximal run of outside samples that contains an excursion > 0.05 leaves and
		// re-enters the corridor within k2VertexDist of a corridor vertex (crossings located by bisection).
		k2 := true
		for j := 0; j <= N && k2; j++ {
			if dist[j] <= outEps {
				continue
			}
			a := j
			big := false
			for ; j <= N && dist[j] > outEps; j++ {
				big = big || dist[j] > splineTol
			}
			b := j - 1
			if !big {
				continue
			}
			if a == 0 || b == N {
				k2 = false // the piece starts or ends outside the corridor: not the signature
				break
			}
			leave := bisectBoundary(cp, float64(a-1)/N, float64(a)/N, rs, outEps)
			reenter := bisectBoundary(cp, float64(b+1)/N, float64(b)/N, rs, outEps)
			// a crossing is ignored by the fitter's containment test when it is next to a barrier end, or at the piece's
			// own end (curve parameter < 1e-6 or > 1 - 1e-6)
			// "at the piece's own end" is judged in space, not in the parameter: a curve that runs just outside a wall
			// towards an end point ON that wall crosses the 1e-9 threshold at a parameter that depends on how flat it
			// approaches (a first version used t < 1e-4 / t > 1 - 1e-4 and raised two alarms in 8 M cases, which were K2)
			// ... and it is judged along the whole stretch on which the curve HUGS the wall (within k2Hug of it) next to
			// the located crossing: a curve that ends tangentially on a wall (or runs along a wall that is offset by a few
			// 1e-6 from the piece's end point) passes the 1e-9 threshold up to 0.08 away from the end point although the
			// wall is crossed AT the end point (three alarms in 12 M cases of the thorough tier, all K2: the chord through
			// two nearly collinear reflex vertices, and the corner cut next to a 0.097 wide step)
			forgiven := func(q P, end P) bool {
				return nearVertex(q) || math.Hypot(q.X-end.X, q.Y-end.Y) <= k2VertexDist
			}
			hugs := func(t0, dir float64, end P) bool {
				const h = 1.0 / (8 * N)
				for t := t0; ; {
					q := cp.curvep(t)
					if forgiven(q, end) {
						return true
					}
					if t <= 0 || t >= 1 {
						return false
					}
					t = math.Min(1, math.Max(0, t+dir*h))
					if distToWalls(cp.curvep(t), rs) > k2Hug {
						return false
					}
				}
			}
			if !hugs(leave, -1, cp.p0) || !hugs(reenter, +1, cp.p3) {
				k2 = false
			}
		}
		if k2 && !strictKnown() {
			o.class("K2-excursion-through-ignored-crossings(known finding, not failed)")
			o.NonTrivial = false
			return o
		}
		return o.failf("piece %d of %d leaves the corridor by %.4g (> %.2g) at t=%.4f, point %v; path %v; piece %v", pi, len(ctrls), worst, splineTol, worstT, cp.curvep(worstT), path, cp)
	}
	o.classIf(len(ctrls) >= 2, "pieces>=2")
	o.NonTrivial = len(ctrls) >= 2
	return o
}

// bisectBoundary finds the parameter between tin (inside) and tout (outside) at which the curve crosses the corridor boundary
func bisectBoundary(cp ctrlp, tin, tout float64, rs []Rect, outEps float64) float64 {
	for i := 0; i < 60; i++ {
		mid := (tin + tout) / 2
		if linfDistToCorridor(cp.curvep(mid), rs) > outEps {
			tout = mid
		} else {
			tin = mid
		}
	}
	return tin
}

func TestC20(t *testing.T) { runGenerated(t, propC20) }

// ---------------------------------------------------------------------------------------------------------
// C20 part B — root finder

type PolyCase struct {
	Coeff [4]float64 `json:"coeff"` // d, c, b, a  (constant term first, as solve3 takes them)
	Roots []float64  `json:"roots"` // intended real roots (with multiplicity) of the polynomial the solver documents to solve
	Kind  string     `json:"kind"`
}

var propC20B = register(&Property{
	ID: "C20B",
	Rule: "cubics from three real roots / one real root + complex pair / double + simple / triple root, quadratics and linears with an exactly zero leading coefficient, leading coefficients in +-[1e-9,1e-5] around the solver's 1e-7 threshold, overall scale 1e-3..1e3; " +
		"soundness: every returned value within tau of an intended real root (tau = 1e-4(1+|r|), 1e-3(1+|r|) next to a multiple root); completeness: every intended simple real root that is >= 0.05 away from the others is returned within tau; " +
		"nil only for the all-zero polynomial, [] only without real roots; ill-conditioned leading coefficients (1e-7 <= |a| < 1e-3 max|coeff|): residual soundness only. non-trivial = three distinct real roots or a complex pair",
	New:   func() any { return &PolyCase{} },
	Gen:   func(rt *rapid.T, s *Stats) any { return genPoly(rt) },
	Check: func(c any) *Outcome { return checkC20B(c.(*PolyCase)) },
})

func genRoot(rt *rapid.T, label string) float64 {
	switch pickG(rt, label+"_kind", 4) {
	case 0:
		return float64(rapid.IntRange(-5, 5).Draw(rt, label+"_int"))
	case 1: // parameters of a bezier/segment intersection live in [0,1]
		return rapid.Float64Range(0, 1).Draw(rt, label+"_unit")
	default:
		return rapid.Float64Range(-4, 4).Draw(rt, label)
	}
}

func genScale(rt *rapid.T) float64 {
	s := math.Pow(10, float64(rapid.IntRange(-3, 3).Draw(rt, "scale_exp"))) * rapid.Float64Range(1, 9.99).Draw(rt, "scale_mant")
	if rapid.Bool().Draw(rt, "scale_neg") {
		s = -s
	}
	return s
}

func genPoly(rt *rapid.T) *PolyCase {
	a := genScale(rt)
	pc := &PolyCase{}
	switch kind := pickG(rt, "poly_kind", 10); kind {
	case 9: // a (x-h)^3 + k: one real root h - cbrt(k/a), complex pair at 120 degrees around h (depressed linear term 0)
		h := genRoot(rt, "h")
		k := rapid.Float64Range(0.001, 30).Draw(rt, "k")
		if rapid.Bool().Draw(rt, "k_neg") {
			k = -k
		}
		if pickG(rt, "k_exact", 3) == 0 {
			k = []float64{8, -8, 1, -1, 27, 0.125}[pickG(rt, "k_nice", 6)]
		}
		r := h - math.Cbrt(k)
		pc.Kind, pc.Roots = "shifted-cube", []float64{r}
		pc.Coeff = [4]float64{a * (k - h*h*h), 3 * a * h * h, -3 * a * h, a}
	case 0, 1: // three real roots
		r1, r2, r3 := genRoot(rt, "r1"), genRoot(rt, "r2"), genRoot(rt, "r3")
		pc.Kind, pc.Roots = "three-real", []float64{r1, r2, r3}
		pc.Coeff = [4]float64{-a * r1 * r2 * r3, a * (r1*r2 + r1*r3 + r2*r3), -a * (r1 + r2 + r3), a}
	case 2, 3: // one real + complex pair p +- qi
		r1, p, q := genRoot(rt, "r1"), genRoot(rt, "p"), rapid.Float64Range(0.05, 3).Draw(rt, "q")
		s := p*p + q*q
		pc.Kind, pc.Roots = "one-real+complex-pair", []float64{r1}
		pc.Coeff = [4]float64{-a * r1 * s, a * (s + 2*p*r1), -a * (2*p + r1), a}
	case 4: // double + simple
		r1, r2 := genRoot(rt, "r1"), genRoot(rt, "r2")
		pc.Kind, pc.Roots = "double+simple", []float64{r1, r1, r2}
		pc.Coeff = [4]float64{-a * r1 * r1 * r2, a * (r1*r1 + 2*r1*r2), -a * (2*r1 + r2), a}
	case 5: // triple
		r1 := genRoot(rt, "r1")
		pc.Kind, pc.Roots = "triple", []float64{r1, r1, r1}
		pc.Coeff = [4]float64{-a * r1 * r1 * r1, 3 * a * r1 * r1, -3 * a * r1, a}
	case 6: // quadratic with an exactly zero cubic coefficient
		switch pickG(rt, "quad_kind", 3) {
		case 0:
			r1, r2 := genRoot(rt, "r1"), genRoot(rt, "r2")
			pc.Kind, pc.Roots = "quadratic-two-real", []float64{r1, r2}
			pc.Coeff = [4]float64{a * r1 * r2, -a * (r1 + r2), a, 0}
		case 1:
			p, q := genRoot(rt, "p"), rapid.Float64Range(0.05, 3).Draw(rt, "q")
			pc.Kind, pc.Roots = "quadratic-complex", nil
			pc.Coeff = [4]float64{a * (p*p + q*q), -2 * a * p, a, 0}
		default:
			r1 := genRoot(rt, "r1")
			pc.Kind, pc.Roots = "quadratic-double", []float64{r1, r1}
			pc.Coeff = [4]float64{a * r1 * r1, -2 * a * r1, a, 0}
		}
	case 7: // linear / constant / zero
		switch pickG(rt, "lin_kind", 3) {
		case 0:
			r1 := genRoot(rt, "r1")
			pc.Kind, pc.Roots = "linear", []float64{r1}
			pc.Coeff = [4]float64{-a * r1, a, 0, 0}
		case 1:
			pc.Kind, pc.Roots = "constant", nil
			pc.Coeff = [4]float64{a, 0, 0, 0}
		default:
			pc.Kind, pc.Roots = "zero", nil
			pc.Coeff = [4]float64{0, 0, 0, 0}
		}
	default: // tiny leading coefficient around the solver's 1e-7 threshold on top of a quadratic
		r1, r2 := genRoot(rt, "r1"), genRoot(rt, "r2")
		tiny := math.Pow(10, rapid.Float64Range(-9, -5).Draw(rt, "tiny_exp"))
		if rapid.Bool().Draw(rt, "tiny_neg") {
			tiny = -tiny
		}
		b := a
		if math.Abs(b) < 1e-2 {
			b = math.Copysign(1, b)
		}
		pc.Kind, pc.Roots = "tiny-leading", []float64{r1, r2}
		pc.Coeff = [4]float64{b * r1 * r2, -b * (r1 + r2), b, tiny}
	}
	return pc
}

func checkC20B(pc *PolyCase) (o *Outcome) {
	o = &Outcome{}
	o.class("kind=" + pc.Kind)
	for _, c := range pc.Coeff {
		if math.IsNaN(c) || math.IsInf(c, 0) {
			return o.failf("bad case: non-finite coefficient")
		}
	}
	d, c, b, a := pc.Coeff[0], pc.Coeff[1], pc.Coeff[2], pc.Coeff[3]
	var got []float64
	func() {
		defer func() {
			if r := recover(); r != nil {
				o.failf("solve3 panicked: %v", r)
			}
		}()
		coeff := pc.Coeff // solve3 must not need to modify its argument, but give it a copy anyway
		got = solve3(coeff[:])
	}()
	if o.Err != nil {
		return o
	}
	for _, g := range got {
		if math.IsNaN(g) || math.IsInf(g, 0) {
			return o.failf("solve3(%v) returned a non-finite value: %v", pc.Coeff, got)
		}
	}
	const eps = 1e-7 // the solver's documented threshold below which a leading coefficient counts as zero
	isZero := func(x float64) bool { return math.Abs(x) < eps }
	maxc := math.Max(math.Max(math.Abs(a), math.Abs(b)), math.Max(math.Abs(c), math.Abs(d)))

	// which polynomial does the solver document to solve, and what are its intended roots?
	roots := pc.Roots
	degree := 3
	switch {
	case !isZero(a):
		degree = 3
	case !isZero(b):
		degree = 2
	case !isZero(c):
		degree = 1
	default:
		degree = 0
	}
	// p evaluated at x for the polynomial as given (all four coefficients)
	eval := func(x float64) float64 { return d + x*(c+x*(b+x*a)) }
	// ivtRoot: the polynomial changes sign (or vanishes) within tol of g, i.e. a real root lies within tol of g
	// (intermediate value theorem; independent of how the roots were intended)
	ivtRoot := func(g, tol float64) bool {
		lo, hi := eval(g-tol), eval(g+tol)
		return lo == 0 || hi == 0 || (lo < 0) != (hi < 0)
	}
	if degree == 3 && (math.Abs(a) < 1e-3*maxc || pc.Kind == "tiny-leading") {
		// Known finding K4: 1e-7 <= |a| but tiny against the other coefficients. Cardano's substitution x = y - b/3a
		// cancels catastrophically: measured error about 1e-16 (b/a)^2, i.e. 4e-3 at |b/a| = 9e6 and plain garbage from
		// |b/a| = 1e8 (solve3([0,-500,1000,1e-5]) returns 0.25 for the root 0.5). The solver's zero test for the leading
		// coefficient is absolute (1e-7) instead of relative. Accuracy is NOT judged in this class (counted); only
		// "returns, and returns finite numbers" is. A first version of this check asserted a relative residual here, which
		// is meaningless next to a root at 0 and was dropped (DESIGN.md, C20).
		o.class("K4-ill-conditioned-leading-coefficient(known finding, accuracy not judged)")
		if strictKnown() {
			// replay of a listed K4 input: judged like any other cubic (a real root within 1e-4(1+|g|) of every returned g)
			for _, g := range got {
				if tol := 1e-4 * (1 + math.Abs(g)); eval(g) != 0 && !ivtRoot(g, tol) {
					return o.failf("solve3(%v) returned %v, but the polynomial has no real root within %g of it", pc.Coeff, g, tol)
				}
			}
		}
		return o
	}
	// below: either a well-conditioned polynomial of its true degree, or |a| < 1e-7 (then the solver documents that it
	// solves the lower-degree polynomial, whose roots are the intended ones)
	if degree == 0 {
		if isZero(d) {
			if got != nil {
				return o.failf("solve3 of the zero polynomial %v returned %v, expected nil (every t is a root)", pc.Coeff, got)
			}
		} else if got == nil || len(got) != 0 {
			return o.failf("solve3 of the non-zero constant %v returned %v, expected an empty non-nil slice", pc.Coeff, got)
		}
		return o
	}
	if got == nil {
		return o.failf("solve3(%v) returned nil (which means: every t is a root) for a polynomial of degree %d", pc.Coeff, degree)
	}
	// multiplicity structure of the intended roots
	mult := func(r float64) (m int, sep float64) {
		sep = math.Inf(1)
		for _, q := range roots {
			if q == r {
				m++
			} else {
				sep = math.Min(sep, math.Abs(q-r))
			}
		}
		return
	}
	tau := func(r float64, nearMultiple bool) float64 {
		if nearMultiple {
			return 1e-3 * (1 + math.Abs(r))
		}
		return 1e-4 * (1 + math.Abs(r))
	}
	// soundness
	for _, g := range got {
		ok := false
		for _, r := range roots {
			m, sep := mult(r)
			if math.Abs(g-r) <= tau(g, m > 1 || sep < 0.05) {
				ok = true
				break
			}
		}
		if !ok && degree == 3 && ivtRoot(g, tau(g, false)) {
			ok = true // a real root of the given cubic provably lies within tau of g
		}
		if !ok {
			return o.failf("solve3(%v) returned %v, which is not near any real root of the polynomial (intended real roots %v, kind %s)", pc.Coeff, g, roots, pc.Kind)
		}
	}
	// completeness for well-separated simple roots
	distinct := 0
	for _, r := range roots {
		m, sep := mult(r)
		if m != 1 || sep < 0.05 {
			o.class("multiple_or_close_root(exempt from completeness)")
			continue
		}
		distinct++
		found := false
		for _, g := range got {
			if math.Abs(g-r) <= tau(r, false) {
				found = true
				break
			}
		}
		if !found {
			return o.failf("solve3(%v) = %v misses the simple real root %v (intended real roots %v, kind %s)", pc.Coeff, got, r, roots, pc.Kind)
		}
	}
	if len(roots) == 0 && len(got) != 0 {
		return o.failf("solve3(%v) = %v but the polynomial has no real root", pc.Coeff, got)
	}
	o.NonTrivial = (pc.Kind == "three-real" && distinct == 3) || pc.Kind == "one-real+complex-pair" || pc.Kind == "shifted-cube"
	return o
}

func TestC20Roots(t *testing.T) { runGenerated(t, propC20B) }

var _ = fmt.Sprint

// TestC20Exhaustive feeds the exhaustively enumerated grid corridors of TestC19Exhaustive to the spline fitter.
func TestC20Exhaustive(t *testing.T) { exhaustiveCorridors(t, propC20, true) }
